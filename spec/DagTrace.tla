------------------------------ MODULE DagTrace ------------------------------
(***************************************************************************)
(* Validation of traces recorded by harness/dag_run from the real          *)
(* pie_graph::DAG.  The abstract DAG (DagCore) is advanced from the        *)
(* operation arguments alone; every result and every observation the       *)
(* implementation reports is compared with it.  C10 formulas (ranks,       *)
(* acyclicity, exact cycle rejection, rejected => unchanged) and C11       *)
(* formulas (queries, adjacency order, data, removals) are tagged          *)
(* separately.  Environment: TRACE, OUT.                                    *)
(***************************************************************************)
EXTENDS DagPK, IOUtils

\* DagPK supplies the abstract DAG `A` and the model `g` of the algorithm as written; here both are advanced along the
\* recorded operations: `A` decides the properties, `g` additionally predicts the exact ranks and iteration orders
\* (a disagreement with `g` alone is model drift, not a violation).

Rec == ndJsonDeserialize(IOEnv.TRACE)

VARIABLES l, prev, dirty, viol, run, cnt, drift

tvars == <<l, A, g, prev, dirty, viol, run, cnt, drift, ops, last>>

NoObs == [level |-> 0]
V(cond, tag) == IF cond THEN {} ELSE {tag}

TInit == /\ l = 1 /\ A = AInit /\ g = GInit /\ prev = NoObs /\ dirty = TRUE /\ viol = {} /\ run = 0
         /\ cnt = [C10 |-> 0, C11 |-> 0, seqs |-> 0] /\ drift = {} /\ ops = <<>> /\ last = [op |-> "init", res |-> "", changed |-> TRUE]

\* the model of the algorithm, advanced by the same operation
GStep(G, e) ==
  CASE e.res = "skipped" -> [g |-> G, res |-> "skipped"]
    [] e.op = "add_node" -> [g |-> GAddNode(G), res |-> "node"]
    [] e.op = "add_edge" -> GAddEdge(G, e.a, e.b, e.d)
    [] e.op = "remove_edge" -> GRemoveEdge(G, e.a, e.b)
    [] e.op = "remove_outgoing" -> GRemoveOutgoing(G, e.a)
    [] e.op = "remove_node" -> GRemoveNode(G, e.a)
    [] OTHER -> [g |-> G, res |-> "?"]

\* does the implementation agree with the model of the algorithm on result, ranks and iteration orders?
DriftOf(G2, r, e) ==
  (IF r # e.res THEN {"result"} ELSE {})
  \cup (IF e.q = 0 THEN {}
        ELSE LET obs == e.obs IN
             IF Len(obs.nodes) # G2.created THEN {"node_count"}
             ELSE (IF \A i \in G2.live : obs.nodes[i].rank = G2.order[i] THEN {} ELSE {"ranks"})
                  \cup (IF \A i \in G2.live : obs.nodes[i].out = G2.kids[i] /\ obs.nodes[i].inc = G2.pars[i] THEN {} ELSE {"adjacency_order"}))

IdsOf(A0) == 1..A0.created

\* ---- expected results --------------------------------------------------------------------------------------------
ExpRes(A0, e) ==
  CASE e.op = "add_node" -> "node"
    [] e.op = "add_edge" -> AddEdgeResult(A0, e.a, e.b)
    [] e.op = "remove_edge" -> IF e.a \in A0.live /\ e.b \in A0.live /\ <<e.a, e.b>> \in A0.edges THEN "some" ELSE "none"
    [] e.op = "remove_outgoing" -> IF e.a \in A0.live /\ AOut(A0, e.a) # <<>> THEN "some" ELSE "none"
    [] e.op = "remove_node" -> IF e.a \in A0.live THEN "true" ELSE "false"
    [] OTHER -> "?"

Step(A0, e) ==
  CASE e.op = "add_node" -> AAddNode(A0)
    [] e.op = "add_edge" -> AAddEdge(A0, e.a, e.b, e.d)
    [] e.op = "remove_edge" -> ARemoveEdge(A0, e.a, e.b)
    [] e.op = "remove_outgoing" -> ARemoveOutgoing(A0, e.a)
    [] e.op = "remove_node" -> ARemoveNode(A0, e.a)
    [] OTHER -> A0

ResultViol(A0, e) ==
  LET exp == ExpRes(A0, e) IN
  IF e.res = "skipped" THEN {}
  ELSE IF e.op = "add_edge" THEN
    V(e.res = exp, <<"C10", IF exp = "cycle" \/ e.res = "cycle" THEN "cycle_rejection_exact" ELSE "add_edge_result">>)
  ELSE IF e.op = "remove_edge" THEN
    V(e.res = exp, <<"C11", "remove_edge_result">>)
    \cup (IF exp = "some" /\ e.res = "some" THEN V(e.ret = A0.dat[<<e.a, e.b>>], <<"C11", "remove_edge_data">>) ELSE {})
  ELSE IF e.op = "remove_outgoing" THEN
    V(e.res = exp, <<"C11", "remove_outgoing_result">>)
    \cup (IF exp = "some" /\ e.res = "some"
          THEN LET o == AOut(A0, e.a) IN
               V(e.ret = [i \in DOMAIN o |-> <<o[i], A0.dat[<<e.a, o[i]>>]>>], <<"C11", "remove_outgoing_returned_edges">>)
          ELSE {})
  ELSE IF e.op = "remove_node" THEN V(e.res = exp, <<"C11", "remove_node_result">>)
  ELSE {}

\* ---- observations -------------------------------------------------------------------------------------------------
RankOf(obs, n) == obs.nodes[n].rank

RECURSIVE SortByRank(_, _)
SortByRank(obs, S) ==
  IF S = {} THEN <<>>
  ELSE LET n == CHOOSE x \in S : \A y \in S : RankOf(obs, x) <= RankOf(obs, y) IN <<n>> \o SortByRank(obs, S \ {n})

ObsViolC10(A1, obs) ==
  LET live == A1.live
      n == Cardinality(live)
  IN V(obs.len = n /\ obs.empty = (n = 0), <<"C10", "len">>)
     \cup V(\A i \in IdsOf(A1) : obs.nodes[i].live = (i \in live), <<"C10", "contains_node">>)
     \cup V({RankOf(obs, i) : i \in live} = 1..n, <<"C10", "ranks_bijection_onto_1_n">>)
     \cup V(\A ed \in A1.edges : RankOf(obs, ed[1]) < RankOf(obs, ed[2]), <<"C10", "rank_respects_edge">>)
     \cup V(\A i \in live : \A j \in ARange(obs.nodes[i].out) : j \in live /\ RankOf(obs, i) < RankOf(obs, j),
            <<"C10", "rank_respects_reported_edge">>)

ObsViolC11Light(A1, obs) ==
  LET live == A1.live IN
  V(\A i \in IdsOf(A1) : i \notin live => (obs.nodes[i].out = <<>> /\ obs.nodes[i].inc = <<>> /\ obs.nodes[i].nd = -1),
    <<"C11", "removed_node_has_edges">>)
  \cup V(\A i \in live : obs.nodes[i].out = AOut(A1, i), <<"C11", "outgoing_first_insertion_order">>)
  \cup V(\A i \in live : obs.nodes[i].inc = AInc(A1, i), <<"C11", "incoming_first_insertion_order">>)
  \cup V(\A i \in live : LET o == AOut(A1, i) IN
            /\ obs.nodes[i].outd = [k \in DOMAIN o |-> A1.dat[<<i, o[k]>>]]
            /\ obs.nodes[i].oute = [k \in DOMAIN o |-> <<o[k], A1.dat[<<i, o[k]>>]>>]
            /\ obs.nodes[i].outn = [k \in DOMAIN o |-> 100 + o[k]],
         <<"C11", "outgoing_edge_data">>)
  \cup V(\A i \in live : LET o == AInc(A1, i) IN
            /\ obs.nodes[i].incd = [k \in DOMAIN o |-> A1.dat[<<o[k], i>>]]
            /\ obs.nodes[i].ince = [k \in DOMAIN o |-> <<o[k], A1.dat[<<o[k], i>>]>>]
            /\ obs.nodes[i].incn = [k \in DOMAIN o |-> 100 + o[k]],
         <<"C11", "incoming_edge_data">>)
  \cup V(\A i \in live : obs.nodes[i].nd = 100 + i, <<"C11", "node_data">>)

ObsViolC11Full(A1, obs) ==
  LET live == A1.live
      P(a, b) == obs.pairs[(a - 1) * A1.created + b]
  IN V(\A a, b \in IdsOf(A1) : P(a, b).ce = (a \in live /\ b \in live /\ <<a, b>> \in A1.edges), <<"C11", "contains_edge">>)
     \cup V(\A a, b \in IdsOf(A1) : P(a, b).cte = (a \in live /\ b \in live /\ AReach(A1, a, b)), <<"C11", "contains_transitive_edge">>)
     \cup V(\A a, b \in IdsOf(A1) : P(a, b).cte2 = P(a, b).cte, <<"C11", "contains_transitive_edge_repeatable">>)
     \cup V(\A a, b \in IdsOf(A1) : P(a, b).ed = (IF <<a, b>> \in A1.edges THEN A1.dat[<<a, b>>] ELSE -1), <<"C11", "get_edge_data">>)
     \cup V(\A a, b \in live : P(a, b).cmp = (IF RankOf(obs, a) < RankOf(obs, b) THEN -1 ELSE IF RankOf(obs, a) = RankOf(obs, b) THEN 0 ELSE 1),
            <<"C11", "topo_cmp">>)
     \cup V(\A i \in IdsOf(A1) : obs.nodes[i].dmiss = (IF i \in live THEN 0 ELSE 2), <<"C11", "descendants_of_removed_node">>)
     \cup V(\A i \in live : obs.nodes[i].desc = SortByRank(obs, ADesc(A1, i)), <<"C11", "descendants_sorted">>)
     \cup V(\A i \in live : LET du == obs.nodes[i].descu IN
               /\ Len(du) = Cardinality(ADesc(A1, i))
               /\ {du[k][2] : k \in DOMAIN du} = ADesc(A1, i)
               /\ \A k \in DOMAIN du : du[k][1] = RankOf(obs, du[k][2]),
            <<"C11", "descendants_unsorted">>)

\* strips the observation to the part that must be unchanged when nothing changed
Stable(obs) == [level |-> obs.level, len |-> obs.len, nodes |-> obs.nodes]

ObsViol(A1, e) ==
  IF e.q = 0 THEN {}
  ELSE LET obs == e.obs IN
       IF Len(obs.nodes) # A1.created THEN {<<"C10", "node_count">>}
       ELSE ObsViolC10(A1, obs) \cup ObsViolC11Light(A1, obs)
            \cup (IF obs.level >= 2 THEN ObsViolC11Full(A1, obs) ELSE {})

Finish(v2, c2) == TRUE
FinishD(v2, c2, d2) == JsonSerialize(IOEnv.OUT, [events |-> Len(Rec), viol |-> v2, cnt |-> c2, drift |-> d2])

TNext ==
  /\ l <= Len(Rec)
  /\ l' = l + 1
  /\ UNCHANGED <<ops, last>>
  /\ LET e == Rec[l] IN
     IF e.ev = "reset" THEN
       /\ A' = AInit /\ g' = GInit /\ prev' = NoObs /\ dirty' = TRUE /\ run' = run + 1
       /\ cnt' = [cnt EXCEPT !.seqs = @ + 1]
       /\ UNCHANGED <<viol, drift>>
       /\ (l < Len(Rec) \/ FinishD(viol, cnt', drift))
     ELSE IF e.ev = "panic" THEN
       /\ viol' = viol \cup {<<run, l, "C10", "implementation_panicked">>}
       /\ UNCHANGED <<A, g, prev, dirty, run, cnt, drift>>
       /\ (l < Len(Rec) \/ FinishD(viol', cnt, drift))
     ELSE IF e.ev = "op" THEN
       LET A1 == Step(A, e)
           gs == GStep(g, e)
           changed == A1 # A
           v1 == ResultViol(A, e)
           v2 == ObsViol(A1, e)
           nowDirty == dirty \/ changed
           \* a rejected or void operation leaves everything observable exactly as it was
           v3 == IF e.q > 0 /\ ~nowDirty /\ prev.level = e.obs.level /\ Stable(prev) # Stable(e.obs)
                 THEN {<<"C10", "rejected_operation_changed_the_graph">>} ELSE {}
           vs == v1 \cup v2 \cup v3
           ds == IF gs.g.created <= MaxNodes THEN DriftOf(gs.g, gs.res, e) ELSE {}
       IN /\ A' = A1
          /\ g' = gs.g
          /\ prev' = IF e.q > 0 THEN e.obs ELSE prev
          /\ dirty' = IF e.q > 0 THEN FALSE ELSE nowDirty
          /\ viol' = viol \cup {<<run, l, t[1], t[2]>> : t \in vs}
          /\ drift' = IF ds = {} \/ \E d \in drift : d[1] = run THEN drift ELSE drift \cup {<<run, l, CHOOSE x \in ds : TRUE>>}
          /\ cnt' = [cnt EXCEPT !.C10 = @ + (IF e.q > 0 \/ e.op = "add_edge" THEN 1 ELSE 0),
                                !.C11 = @ + (IF e.q > 0 \/ e.op # "add_node" THEN 1 ELSE 0)]
          /\ UNCHANGED run
          /\ (l < Len(Rec) \/ FinishD(viol', cnt', drift'))
     ELSE
       /\ UNCHANGED <<A, g, prev, dirty, viol, run, cnt, drift>>
       /\ (l < Len(Rec) \/ FinishD(viol, cnt, drift))

TSpec == TInit /\ [][TNext]_tvars
Accepted == TLCGet("stats").diameter = Len(Rec) + 1
=============================================================================
