------------------------------ MODULE UnitTrace ------------------------------
(***************************************************************************)
(* Validation of the traces recorded by harness/unit_run against the small *)
(* models of UnitModels.tla.  Environment: TRACE, OUT.                      *)
(***************************************************************************)
EXTENDS UnitModels, Json, IOUtils

Rec == ndJsonDeserialize(IOEnv.TRACE)

VARIABLES l, u, viol, cnt, x
vars == <<l, u, viol, cnt, x>>

V(cond, tag) == IF cond THEN {} ELSE {tag}


\* ---- C12 -----------------------------------------------------------------------------------------------------------
ChkViol(e) ==
  LET exp == ~Rel(e.c, e.o1, e.o2) IN
  V(e.inc = exp, <<"C12", "relation_" \o e.c>>)
  \cup V(e.inc_obj = exp /\ e.inc_mixed = exp, <<"C12", "object_safe_proxy_" \o e.c>>)
  \cup V(e.s = OStamp(e.c, e.o2) /\ e.s_obj = e.s, <<"C12", "stamp_" \o e.c>>)
ChkScalarViol(e) ==
  V(e.inc_eq = (e.i # e.j), <<"C12", "relation_eq_" \o e.ty>>) \cup V(~e.inc_any, <<"C12", "relation_any_" \o e.ty>>)

\* ---- C13 -----------------------------------------------------------------------------------------------------------
FilesInit == [fs |-> FsInit, ver |-> 0, snaps |-> <<>>, hid |-> <<>>]

\* the hash stamp is a function of the observed content and (within one kind) injective
HashIdViol(hid, id, abs) ==
  IF abs = <<"n">> THEN V(id = -1, <<"C13", "hash_stamp_of_absent_path">>)
  ELSE V(id >= 0, <<"C13", "hash_stamp_missing">>)
       \cup (IF id \in DOMAIN hid /\ hid[id] # abs /\ hid[id][1] = abs[1] THEN {<<"C13", "different_content_same_hash_stamp">>} ELSE {})
       \cup (IF \E j \in DOMAIN hid : j # id /\ hid[j] = abs THEN {<<"C13", "same_content_different_hash_stamp">>} ELSE {})
HashIdAdd(hid, id, abs) == IF id < 0 \/ id \in DOMAIN hid THEN hid ELSE (id :> abs) @@ hid

FilesStep(ff, e) ==
  CASE e.ev = "fs" -> [ff EXCEPT !.fs = FsStep(ff.fs, e), !.ver = IF FsChanges(e) THEN @ + 1 ELSE @,
                                 !.hid = IF e.act = "writer" /\ "wstamps" \in DOMAIN e /\ ~e.removed
                                         THEN HashIdAdd(@, e.wstamps[3][1], <<"f", e.k, e.size>>) ELSE @]
    [] e.ev = "stamps" -> [ff EXCEPT !.snaps = (e.sid :> [fs |-> ff.fs, ver |-> ff.ver]) @@ @,
                                     !.hid = HashIdAdd(@, e.obs.h_path, HashAbs(ff.fs))]
    [] OTHER -> ff

FilesViol(ff, e) ==
  CASE e.ev = "fs" ->
         IF e.act = "open_write_dir" THEN V(e.refused, <<"C13", "open_for_writing_refuses_directories">>)
         ELSE IF e.act = "writer" THEN
           IF "open_failed" \in DOMAIN e THEN {<<"C13", "open_for_writing_creates_or_truncates">>}
           ELSE LET w == e.wstamps
                    after == FsStep(ff.fs, e)
                IN V(\A i \in 1..3 : w[i][3] = 0, <<"C13", "open_for_writing_creates_or_truncates">>)
                   \cup V(w[1][1] = w[1][2] /\ w[1][2] = ExistsAbs(after), <<"C13", "exists_writer_route">>)
                   \cup V(w[2][1] = w[2][2], <<"C13", "modified_writer_route">>)
                   \cup V(w[3][1] = w[3][2], <<"C13", "hash_writer_route">>)
                   \cup HashIdViol(ff.hid, w[3][2], HashAbs(after))
         ELSE {}
    [] e.ev = "stamps" ->
         LET o == e.obs
             fs == ff.fs
         IN V(o.e_path = ExistsAbs(fs) /\ o.e_reader = o.e_path, <<"C13", "exists_stamp_routes">>)
            \cup V(o.m_path = ModifiedAbs(fs) /\ o.m_reader = o.m_path, <<"C13", "modified_stamp_routes">>)
            \cup V(o.h_reader = o.h_path, <<"C13", "hash_stamp_routes">>)
            \cup HashIdViol(ff.hid, o.h_path, HashAbs(fs))
            \cup V(o.e_reader_read = 1 /\ o.m_reader_read = 1 /\ o.h_reader_read = 1, <<"C13", "reader_positioned_at_start_after_stamp">>)
            \cup V(o.e_reader_kind = fs.kind /\ o.m_reader_kind = fs.kind /\ o.h_reader_kind = fs.kind, <<"C13", "reader_kind">>)
    [] e.ev = "fcheck" ->
         LET sn == ff.snaps[e.sid]
             same == sn.ver = ff.ver
             Exp(res, differs, name) ==
               IF same THEN V(res = 0, <<"C13", name \o "_untouched_is_consistent">>)
               ELSE IF differs THEN V(res = 1, <<"C13", name \o "_change_is_inconsistent">>)
               ELSE {}
         IN Exp(e.e, ExistsDiffers(sn.fs, ff.fs), "exists")
            \cup Exp(e.m, ModifiedDiffers(sn.fs, ff.fs), "modified")
            \cup Exp(e.h, HashDiffers(sn.fs, ff.fs), "hash")
    [] OTHER -> {}

\* ---- C15 -----------------------------------------------------------------------------------------------------------
\* identity of a key is (concrete type, value): uu.keys[i] = <<ty, v>> as declared by the harness
KeyViol(uu, e) ==
  CASE e.ev = "keycmp" ->
         LET same == uu.keys[e.a] = uu.keys[e.b] IN
         V(e.eq = same /\ e.eq_box = same, <<"C15", "key_equality_is_type_and_value">>)
         \cup V(~same \/ e.hash_eq, <<"C15", "equal_keys_hash_equally">>)
    [] e.ev = "keymap" ->
         LET first == CHOOSE j \in DOMAIN uu.keys : uu.keys[j] = uu.keys[e.a] /\ \A k \in DOMAIN uu.keys : uu.keys[k] = uu.keys[e.a] => j <= k
         IN V(e.found = first, <<"C15", "hash_map_lookup_by_trait_object">>)
            \cup V(e.size = Cardinality({uu.keys[j] : j \in DOMAIN uu.keys}), <<"C15", "hash_map_lookup_by_trait_object">>)
    [] OTHER -> {}

\* ---- C14 -----------------------------------------------------------------------------------------------------------
\* u.slots is advanced by the model from the operation arguments; the implementation's result (rendered in TLA+ value
\* syntax by the harness) must be the model's result
UnitStep(uu, e) ==
  CASE e.ev = "reset" -> [suite |-> e.suite, slots |-> SlotInit, files |-> FilesInit, keys |-> <<>>]
    [] e.ev = "keydef" -> [uu EXCEPT !.keys = (e.i :> <<e.ty, e.v>>) @@ @]
    [] e.ev \in {"fs", "stamps", "fcheck"} -> [uu EXCEPT !.files = FilesStep(uu.files, e)]
    [] e.ev = "typed" -> [uu EXCEPT !.slots = TypedOp(uu.slots, e).slots]
    [] e.ev = "mapop" -> [uu EXCEPT !.slots = MapOp(uu.slots, e).slots]
    [] OTHER -> uu

StepViol(uu, e) ==
  CASE e.ev = "chk" -> ChkViol(e)
    [] e.ev = "chk_scalar" -> ChkScalarViol(e)
    [] e.ev = "typed" -> V(e.res = ToString(TypedOp(uu.slots, e).res), <<"C14", "typed_state_" \o e.op>>)
    [] e.ev = "mapop" -> V(e.res = ToString(MapOp(uu.slots, e).res), <<"C14", "map_" \o e.op>>)
    [] e.ev \in {"fs", "stamps", "fcheck"} -> FilesViol(uu.files, e)
    [] e.ev \in {"keycmp", "keymap"} -> KeyViol(uu, e)
    [] OTHER -> {}

Init == l = 1 /\ u = [suite |-> "", slots |-> SlotInit, files |-> FilesInit, keys |-> <<>>] /\ viol = {} /\ cnt = 0 /\ x = 0

Finish(v2, c2) == JsonSerialize(IOEnv.OUT, [events |-> Len(Rec), viol |-> v2, evaluations |-> c2])

Next ==
  /\ l <= Len(Rec)
  /\ l' = l + 1
  /\ LET e == Rec[l]
         vs == StepViol(u, e)
     IN /\ viol' = viol \cup {<<l, t[1], t[2]>> : t \in vs}
        /\ cnt' = cnt + (IF e.ev \in {"reset", "end"} THEN 0 ELSE 1)
        /\ u' = UnitStep(u, e)
        /\ UNCHANGED x
        /\ (l < Len(Rec) \/ Finish(viol', cnt'))

Spec == Init /\ [][Next]_vars
Accepted == TLCGet("stats").diameter = Len(Rec) + 1

\* design-level: the models themselves (no trace needed)
ModelInit == l = 0 /\ u = [suite |-> "", slots |-> SlotInit, files |-> FilesInit, keys |-> <<>>] /\ viol = {} /\ cnt = 0 /\ x = 0
ModelSpec == ModelInit /\ [][UNCHANGED vars]_vars
=============================================================================
