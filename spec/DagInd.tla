-------------------------------- MODULE DagInd --------------------------------
(***************************************************************************)
(* Inductive step for the Pearce-Kelly model: instead of the states        *)
(* reachable by at most MaxOps operations from the empty graph, TLC starts *)
(* from EVERY state over at most MaxNodes nodes that satisfies the         *)
(* invariants of DagPK (any live set, any gap-free ranking, any edge set   *)
(* that respects the ranking, any insertion history of these edges) and    *)
(* takes one step of DagPK!Next from each.  All invariants of DagPK hold   *)
(* again after the step and the reported result is the abstract one.       *)
(* Together with DagPK!Init => invariants this shows, for graphs of at     *)
(* most MaxNodes nodes, that they hold after operation sequences of ANY    *)
(* length (the bounded runs of DagPK only cover MaxOps operations).        *)
(*                                                                         *)
(* Configuration: MaxOps = 1 (one step from every start state), INIT       *)
(* IndInit, NEXT Next, the invariants and ResultMatches of DagPK.          *)
(***************************************************************************)
EXTENDS DagPK

\* all bijections from S onto 1..|S|
Bij(S) == {f \in [S -> 1..Cardinality(S)] : \A x, y \in S : x # y => f[x] # f[y]}

\* the concrete graph that the abstract state (with ranking ord) is implemented by
Concrete(AA, ord) ==
  [live |-> AA.live, created |-> AA.created, order |-> ord,
   kids |-> [n \in Ids |-> IF n \in AA.live THEN AOut(AA, n) ELSE <<>>],
   pars |-> [n \in Ids |-> IF n \in AA.live THEN AInc(AA, n) ELSE <<>>],
   data |-> AA.dat, lastOrder |-> Cardinality(AA.live)]

IndInit ==
  /\ ops = <<>>
  /\ last = [op |-> "init", res |-> "", changed |-> TRUE]
  /\ \E c \in 0..MaxNodes : \E L \in SUBSET (1..c) : \E ord \in Bij(L) :
       \E E \in SUBSET {e \in L \X L : ord[e[1]] < ord[e[2]]} : \E tau \in Bij(E) :
         /\ A = [live |-> L, created |-> c, edges |-> E, ins |-> tau, dat |-> [e \in E |-> 1], clock |-> Cardinality(E)]
         /\ g = Concrete(A, ord)

\* the same with one (lexicographic) insertion order per edge set: all graph shapes and rankings of larger node counts
LexIns(E) == [e \in E |-> Cardinality({x \in E : x[1] < e[1] \/ (x[1] = e[1] /\ x[2] <= e[2])})]
IndInitLex ==
  /\ ops = <<>>
  /\ last = [op |-> "init", res |-> "", changed |-> TRUE]
  /\ \E c \in 0..MaxNodes : \E L \in SUBSET (1..c) : \E ord \in Bij(L) :
       \E E \in SUBSET {e \in L \X L : ord[e[1]] < ord[e[2]]} :
         /\ A = [live |-> L, created |-> c, edges |-> E, ins |-> LexIns(E), dat |-> [e \in E |-> 1], clock |-> Cardinality(E)]
         /\ g = Concrete(A, ord)

\* the start states are exactly states satisfying the invariants (sanity: checked as invariants of the start states too)
IndSpec == IndInit /\ [][Next]_vars
=============================================================================
