------------------------------- MODULE DagAlgo -------------------------------
(***************************************************************************)
(* The rank maintenance of pie_graph::DAG::add_edge (Pearce-Kelly) as pure *)
(* operators on a graph record G with fields                               *)
(*   order  node -> topological rank                                        *)
(*   kids   node -> sequence of children (iteration order)                  *)
(*   pars   node -> sequence of parents  (iteration order)                  *)
(* Used by DagPK.tla (the DAG on its own) and by PieCore.tla (the          *)
(* dependency store of pie, whose nodes are tasks and resources).           *)
(***************************************************************************)
EXTENDS Integers, Sequences, FiniteSets

SRange(s) == {s[i] : i \in DOMAIN s}

\* ---- dfs_forward (lib.rs:921): nodes reachable from `start` through children of rank < ub; cycle iff a child has rank ub
RECURSIVE Fwd(_, _, _, _)
Fwd(G, frontier, seen, ub) ==
  IF frontier = {} THEN seen
  ELSE LET nxt == {c \in UNION {SRange(G.kids[n]) : n \in frontier} : G.order[c] < ub} \ seen
       IN Fwd(G, nxt, seen \cup nxt, ub)
FwdSet(G, start, ub) == Fwd(G, {start}, {start}, ub)
FwdCycle(G, F, ub) == \E n \in F : \E c \in SRange(G.kids[n]) : G.order[c] = ub

\* ---- dfs_backward (lib.rs:952): nodes reaching `start` through parents of rank > lb that were not visited forward
RECURSIVE Bwd(_, _, _, _, _)
Bwd(G, frontier, seen, lb, visited) ==
  IF frontier = {} THEN seen
  ELSE LET nxt == {p \in UNION {SRange(G.pars[n]) : n \in frontier} : G.order[p] > lb /\ p \notin visited} \ seen
       IN Bwd(G, nxt, seen \cup nxt, lb, visited)
BwdSet(G, start, lb, visited) == Bwd(G, {start}, {start}, lb, visited)

RECURSIVE SortByOrder(_, _)
SortByOrder(G, S) ==
  IF S = {} THEN <<>>
  ELSE LET n == CHOOSE x \in S : \A y \in S : G.order[x] <= G.order[y] IN <<n>> \o SortByOrder(G, S \ {n})
RECURSIVE SortNat(_)
SortNat(S) == IF S = {} THEN <<>> ELSE LET x == CHOOSE x \in S : \A y \in S : x <= y IN <<x>> \o SortNat(S \ {x})

\* ---- reorder_nodes (lib.rs:984): backward set (sorted) then forward set (sorted) receive the sorted ranks
Reorder(G, F, B) ==
  LET keys == SortByOrder(G, B) \o SortByOrder(G, F)
      ranks == SortNat({G.order[n] : n \in B \cup F})
  IN [G EXCEPT !.order = [n \in DOMAIN G.order |->
                             IF \E i \in DOMAIN keys : keys[i] = n
                             THEN ranks[CHOOSE i \in DOMAIN keys : keys[i] = n] ELSE G.order[n]]]


\* ranks after inserting the edge a -> b (already present in G.kids / G.pars) when it is not rejected as a cycle
RanksAfterEdge(G, a, b) ==
  LET ub == G.order[a]
      lb == G.order[b]
  IN IF lb < ub
     THEN LET F == FwdSet(G, b, ub) IN Reorder(G, F, BwdSet(G, a, lb, F)).order
     ELSE G.order
=============================================================================
