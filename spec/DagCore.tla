------------------------------- MODULE DagCore -------------------------------
(***************************************************************************)
(* The abstract DAG that pie_graph::DAG must implement: a set of live      *)
(* nodes, the true edge set, the data and the position of the first        *)
(* insertion of every present edge.  It is advanced from operation         *)
(* arguments alone (never from what the implementation reports), both in   *)
(* the design check of the Pearce-Kelly model (DagPK.tla) and in the       *)
(* validation of implementation traces (DagTrace.tla).                     *)
(***************************************************************************)
EXTENDS Integers, Sequences, FiniteSets, TLC

ARange(s) == {s[i] : i \in DOMAIN s}
Last(s) == s[Len(s)]

AInit == [live |-> {}, created |-> 0, edges |-> {}, ins |-> <<>>, dat |-> <<>>, clock |-> 0]
\* ins / dat: functions over the present edges (as <<a, b>> tuples)

ASucc(A, a) == {e[2] : e \in {x \in A.edges : x[1] = a}}
APred(A, b) == {e[1] : e \in {x \in A.edges : x[2] = b}}

RECURSIVE AReachSet(_, _, _)
AReachSet(A, frontier, seen) ==
  IF frontier = {} THEN seen
  ELSE LET nxt == (UNION {ASucc(A, a) : a \in frontier}) \ seen IN AReachSet(A, nxt, seen \cup nxt)
ADesc(A, a) == AReachSet(A, {a}, {})                 \* proper descendants (a itself only if on a cycle)
AReach(A, a, b) == a # b /\ b \in ADesc(A, a)

AAcyclic(A) == \A a \in A.live : a \notin ADesc(A, a)

\* edges from a / into b in order of first insertion
RECURSIVE SortByIns(_, _)
SortByIns(A, S) ==
  IF S = {} THEN <<>>
  ELSE LET e == CHOOSE x \in S : \A y \in S : A.ins[x] <= A.ins[y] IN <<e>> \o SortByIns(A, S \ {e})
AOut(A, a) == LET s == SortByIns(A, {x \in A.edges : x[1] = a}) IN [i \in DOMAIN s |-> s[i][2]]
AInc(A, b) == LET s == SortByIns(A, {x \in A.edges : x[2] = b}) IN [i \in DOMAIN s |-> s[i][1]]

Restrict(f, S) == [x \in S |-> f[x]]

\* expected result of add_edge(a, b) on the state before the call
AddEdgeResult(A, a, b) ==
  IF a \notin A.live \/ b \notin A.live THEN "missing"
  ELSE IF a = b \/ AReach(A, b, a) THEN "cycle"
  ELSE IF <<a, b>> \in A.edges THEN "false"
  ELSE "true"

AAddNode(A) == [A EXCEPT !.created = @ + 1, !.live = @ \cup {A.created + 1}]

AAddEdge(A, a, b, d) ==
  IF AddEdgeResult(A, a, b) # "true" THEN A
  ELSE [A EXCEPT !.edges = @ \cup {<<a, b>>}, !.clock = @ + 1,
                 !.ins = (<<a, b>> :> (A.clock + 1)) @@ @, !.dat = (<<a, b>> :> d) @@ @]

ADropEdges(A, S) ==
  LET keep == A.edges \ S IN [A EXCEPT !.edges = keep, !.ins = Restrict(@, keep), !.dat = Restrict(@, keep)]

ARemoveEdge(A, a, b) == IF a \in A.live /\ b \in A.live THEN ADropEdges(A, {<<a, b>>} \cap A.edges) ELSE A
ARemoveOutgoing(A, a) == IF a \in A.live THEN ADropEdges(A, {x \in A.edges : x[1] = a}) ELSE A
ARemoveNode(A, a) ==
  IF a \notin A.live THEN A
  ELSE LET A1 == ADropEdges(A, {x \in A.edges : x[1] = a \/ x[2] = a}) IN [A1 EXCEPT !.live = @ \ {a}]
=============================================================================
