-------------------------------- MODULE DagPK --------------------------------
(***************************************************************************)
(* Model of pie_graph::DAG (graph/src/lib.rs) as written: insertion-       *)
(* ordered adjacency, topological ranks maintained by the Pearce-Kelly     *)
(* algorithm (bounded forward search for a cycle, bounded backward search, *)
(* reassignment of the ranks of the affected region, rollback on a cycle), *)
(* rank compaction on node removal.  It runs in lock-step with the         *)
(* abstract DAG of DagCore, which is advanced from the operation arguments *)
(* alone; the invariants say that the algorithm implements the abstract    *)
(* DAG (C10, C11) for every operation sequence within the bounds.          *)
(***************************************************************************)
EXTENDS DagCore, DagAlgo, Json

CONSTANTS MaxNodes,        \* nodes ever created
          MaxOps,          \* operations per behaviour
          Data,            \* edge data values
          ReinsertMovesToBack,  \* TRUE: add_edge on an existing edge moves the child to the back (defect F1)
          EmitSequences

VARIABLES g, A, ops, last

vars == <<g, A, ops, last>>
view == <<g, A, last>>

Ids == 1..MaxNodes

GInit == [live |-> {}, created |-> 0, order |-> <<>>, kids |-> [n \in Ids |-> <<>>], pars |-> [n \in Ids |-> <<>>],
          data |-> <<>>, lastOrder |-> 0]

Init == g = GInit /\ A = AInit /\ ops = <<>> /\ last = [op |-> "init", res |-> "", changed |-> TRUE]

RemoveVal(s, v) == SelectSeq(s, LAMBDA y : y # v)
Contains(s, v) == v \in ARange(s)

\* ---- add_node (lib.rs:251)
GAddNode(G) ==
  LET n == G.created + 1 IN
  [G EXCEPT !.created = n, !.live = @ \cup {n}, !.lastOrder = @ + 1, !.order = (n :> (G.lastOrder + 1)) @@ @]

\* ---- add_edge (lib.rs:381)
GAddEdge(G, a, b, d) ==
  IF a \notin G.live \/ b \notin G.live THEN [g |-> G, res |-> "missing"]
  ELSE IF a = b THEN [g |-> G, res |-> "cycle"]
  ELSE IF Contains(G.kids[a], b) THEN
    [g |-> IF ReinsertMovesToBack THEN [G EXCEPT !.kids[a] = Append(RemoveVal(@, b), b)] ELSE G, res |-> "false"]
  ELSE
    LET G1 == [G EXCEPT !.kids[a] = Append(@, b), !.pars[b] = Append(@, a), !.data = (<<a, b>> :> d) @@ @]
        ub == G.order[a]
        lb == G.order[b]
    IN IF lb < ub THEN
         LET F == FwdSet(G1, b, ub) IN
         IF FwdCycle(G1, F, ub) THEN [g |-> G, res |-> "cycle"]      \* rollback: children, parents and edge data restored
         ELSE [g |-> Reorder(G1, F, BwdSet(G1, a, lb, F)), res |-> "true"]
       ELSE [g |-> G1, res |-> "true"]

DropData(G, S) == [G EXCEPT !.data = [e \in (DOMAIN G.data) \ S |-> G.data[e]]]

\* ---- remove_edge (lib.rs:664)
GRemoveEdge(G, a, b) ==
  IF a \notin G.live \/ b \notin G.live \/ ~Contains(G.kids[a], b) THEN [g |-> G, res |-> "none"]
  ELSE [g |-> DropData([G EXCEPT !.kids[a] = RemoveVal(@, b), !.pars[b] = RemoveVal(@, a)], {<<a, b>>}), res |-> "some"]

\* ---- remove_outgoing_edges_of_node (lib.rs:681)
GRemoveOutgoing(G, a) ==
  IF a \notin G.live \/ G.kids[a] = <<>> THEN [g |-> G, res |-> "none"]
  ELSE LET cs == ARange(G.kids[a]) IN
       [g |-> DropData([G EXCEPT !.kids[a] = <<>>, !.pars = [n \in Ids |-> IF n \in cs THEN RemoveVal(@[n], a) ELSE @[n]]],
                       {<<a, c>> : c \in cs}),
        res |-> "some"]

\* ---- remove_node (lib.rs:302)
GRemoveNode(G, a) ==
  IF a \notin G.live THEN [g |-> G, res |-> "false"]
  ELSE LET cs == ARange(G.kids[a])
           ps == ARange(G.pars[a])
           o == G.order[a]
           G1 == [G EXCEPT !.live = @ \ {a},
                           !.kids = [n \in Ids |-> IF n = a THEN <<>> ELSE IF n \in ps THEN RemoveVal(@[n], a) ELSE @[n]],
                           !.pars = [n \in Ids |-> IF n = a THEN <<>> ELSE IF n \in cs THEN RemoveVal(@[n], a) ELSE @[n]],
                           !.order = [n \in (DOMAIN G.order) \ {a} |-> IF G.order[n] > o THEN G.order[n] - 1 ELSE G.order[n]],
                           !.lastOrder = @ - 1]
       IN [g |-> DropData(G1, {<<a, c>> : c \in cs} \cup {<<p, a>> : p \in ps}), res |-> "true"]

(***************************************************************************)
(* Operations.                                                              *)
(***************************************************************************)
Do(op, r, A2) ==
  /\ g' = r.g /\ A' = A2
  /\ ops' = Append(ops, op)
  /\ last' = [op |-> op.op, res |-> r.res, changed |-> r.g # g]

AddNode ==
  /\ g.created < MaxNodes
  /\ Do([op |-> "add_node"], [g |-> GAddNode(g), res |-> "node"], AAddNode(A))
AddEdge(a, b, d) == Do([op |-> "add_edge", a |-> a, b |-> b, d |-> d], GAddEdge(g, a, b, d), AAddEdge(A, a, b, d))
RemoveEdge(a, b) == Do([op |-> "remove_edge", a |-> a, b |-> b], GRemoveEdge(g, a, b), ARemoveEdge(A, a, b))
RemoveOutgoing(a) == Do([op |-> "remove_outgoing", a |-> a], GRemoveOutgoing(g, a), ARemoveOutgoing(A, a))
RemoveNode(a) == Do([op |-> "remove_node", a |-> a], GRemoveNode(g, a), ARemoveNode(A, a))

Next ==
  /\ Len(ops) < MaxOps
  /\ \/ AddNode
     \/ \E a, b \in 1..g.created, d \in Data : AddEdge(a, b, d)
     \/ \E a, b \in 1..g.created : RemoveEdge(a, b)
     \/ \E a \in 1..g.created : RemoveOutgoing(a) \/ RemoveNode(a)
  /\ (EmitSequences /\ Len(ops') = MaxOps) => PrintT(ToJson([ops |-> ops']))

Spec == Init /\ [][Next]_vars

(***************************************************************************)
(* C10: acyclic, gap-free ranks respecting every edge, exact cycle         *)
(* rejection, rejected insertions change nothing.                           *)
(***************************************************************************)
KidEdges(G) == UNION {{<<a, c>> : c \in ARange(G.kids[a])} : a \in Ids}
ParEdges(G) == UNION {{<<p, b>> : p \in ARange(G.pars[b])} : b \in Ids}

C10_Ranks ==
  /\ DOMAIN g.order = g.live
  /\ {g.order[n] : n \in g.live} = 1..Cardinality(g.live)
  /\ g.lastOrder = Cardinality(g.live)
  /\ \A e \in KidEdges(g) : g.order[e[1]] < g.order[e[2]]
C10_Acyclic == AAcyclic(A) /\ KidEdges(g) = A.edges
C10_Result ==
  \* the result of the last add_edge is the abstract one (computed on the state before), rejected => unchanged
  last.op = "add_edge" =>
    LET o == Last(ops) IN
    /\ last.res \in {"cycle", "missing"} => ~last.changed
C10_LiveAgree == g.live = A.live /\ g.created = A.created

(***************************************************************************)
(* C11: the three encodings of the edge set agree with the true edge set,  *)
(* adjacency is iterated in order of first insertion and carries the data  *)
(* given at that insertion.                                                 *)
(***************************************************************************)
C11_Encodings == KidEdges(g) = A.edges /\ ParEdges(g) = A.edges /\ DOMAIN g.data = A.edges
C11_Order == \A n \in g.live : g.kids[n] = AOut(A, n) /\ g.pars[n] = AInc(A, n)
C11_Data == \A e \in A.edges : g.data[e] = A.dat[e]
C11_NoDup == \A n \in Ids : Cardinality(ARange(g.kids[n])) = Len(g.kids[n]) /\ Cardinality(ARange(g.pars[n])) = Len(g.pars[n])

\* the abstract result of the operation just performed (ghost, recomputed from the pre-state is not available in an
\* invariant, so the action property below states it)
ResultMatches ==
  [][\A a, b \in Ids, d \in Data :
       (ops' # ops /\ Last(ops').op = "add_edge" /\ Last(ops').a = a /\ Last(ops').b = b)
         => last'.res = AddEdgeResult(A, a, b)]_vars
=============================================================================
