----------------------------- MODULE PieConform -----------------------------
(***************************************************************************)
(* Conformance: the event stream recorded from the implementation for a    *)
(* scenario must be a behaviour of the operational specification Pie.tla   *)
(* run on that scenario's program table, i.e. exactly the sequence of      *)
(* events the specification's actions emit, in order.                      *)
(*                                                                         *)
(* Every step is a step of Pie!Next whose emitted events (variable `out`)  *)
(* equal the next recorded events (ignoring fields the specification does  *)
(* not model: reader/writer instance ids, panic messages, the store dump,  *)
(* the recording tracker's report).  Environment actions are matched the   *)
(* same way, so the recorded history selects them.  Several scenarios of   *)
(* the same dimensions are concatenated; a `reset` event re-initialises    *)
(* the specification with the scenario's table and initial contents.       *)
(* If no step matches, the behaviour ends; the driver reads the last       *)
(* matched line (register 1) and reports the scenario as MODEL-DRIFT: a    *)
(* warning that specification and code took different steps, never a       *)
(* violation by itself (DESIGN.md section 5).                              *)
(* Environment: TRACE.                                                      *)
(***************************************************************************)
EXTENDS Pie, IOUtils

Rec == ndJsonDeserialize(IOEnv.TRACE)

VARIABLES l, done
cvars == <<vars, l, done>>

Ignored == {"id", "msg", "dump", "evt", "trk_same", "trk_n1", "trk_n2"}

EvMatch(a, b) ==
  /\ a.ev = b.ev
  /\ \A f \in (DOMAIN a) \ Ignored : f \in DOMAIN b /\ a[f] = b[f]

Matches(evs, from) ==
  /\ from + Len(evs) - 1 <= Len(Rec)
  /\ \A i \in DOMAIN evs : EvMatch(evs[i], Rec[from + i - 1])

TableOf(scn) ==
  LET keys == {<<t, pc, acc>> : t \in 1..scn.nt, pc \in 0..scn.len, acc \in 0..(scn.na - 1)}
  IN [k \in keys |-> scn.prog[k[1]][k[2] + 1][k[3] + 1]]

\* the named actions of Pie.tla; register 10 + i counts the matched steps of action i (per-action coverage of the
\* operational specification by the implementation's traces: an action never taken was never bound to the code)
ActNames == <<"McStep", "ChkStep", "ChkReturn", "RootReturn", "ExecStep", "RequireReturn", "BuSched", "BuRun", "BuLoop",
              "EasReturn", "McbStep", "RsnStep", "ExtSet", "SetFault", "BoomArm", "BoomClr", "StartSession", "EndSession",
              "RootReq", "BuBegin">>

CInit == Init /\ l = 1 /\ done = 0 /\ TLCSet(1, 1) /\ TLCSet(2, 0) /\ \A i \in DOMAIN ActNames : TLCSet(10 + i, 0)

Reset ==
  /\ l <= Len(Rec) /\ Rec[l].ev = "reset"
  /\ LET scn == Rec[l].scn IN
     /\ Assert(scn.nt = NT /\ scn.nr = NR /\ scn.nv = NV /\ scn.na = NA /\ scn.len = LEN, "scenario dimensions differ from the constants")
     /\ st' = StoreInit(NT, NR, scn.init)
     /\ prog' = TableOf(scn)
     /\ m' = MonInit(P(prog'))
     /\ ctl' = [stack |-> <<>>, cons |-> {}, errs |-> 0, ret |-> FALSE, retv |-> NONE, mode |-> "idle", todo |-> <<>>,
                roots |-> 0, inBU |-> FALSE]
     /\ env' = [sessions |-> 0, changes |-> 0, bus |-> 0, fault |-> {}, boom |-> <<0, 0>>, injKey |-> <<>>, dirty |-> {},
                aborted |-> FALSE]
     /\ viol' = {} /\ kfs' = {} /\ hist' = <<>> /\ out' = <<>>
  /\ l' = l + 1
  /\ UNCHANGED done

EndOfRun ==
  /\ l <= Len(Rec) /\ Rec[l].ev = "end"
  /\ ctl.mode = "idle" /\ ctl.stack = <<>>
  /\ l' = l + 1 /\ done' = done + 1
  /\ TLCSet(1, l') /\ TLCSet(2, done')
  /\ UNCHANGED vars

Fin(i) ==
  /\ Matches(out', l)
  /\ l' = l + Len(out')
  /\ TLCSet(1, IF l' > TLCGet(1) THEN l' ELSE TLCGet(1))
  /\ TLCSet(10 + i, TLCGet(10 + i) + 1)
  /\ UNCHANGED done

\* the disjuncts of Pie!Next, one by one (ChooseInit is replaced by Reset)
Step ==
  /\ l <= Len(Rec) /\ Rec[l].ev \notin {"reset", "end"}
  /\ \/ McStep /\ Fin(1)
     \/ ChkStep /\ Fin(2)
     \/ ChkReturn /\ Fin(3)
     \/ RootReturn /\ Fin(4)
     \/ ExecStep /\ Fin(5)
     \/ RequireReturn /\ Fin(6)
     \/ BuSched /\ Fin(7)
     \/ BuRun /\ Fin(8)
     \/ BuLoop /\ Fin(9)
     \/ EasReturn /\ Fin(10)
     \/ McbStep /\ Fin(11)
     \/ RsnStep /\ Fin(12)
     \/ (\E r \in ResIds, v \in (-1)..(NV - 1) : ExtSet(r, v)) /\ Fin(13)
     \/ (\E r \in ResIds, on \in BOOLEAN : SetFault(r, on)) /\ Fin(14)
     \/ (\E t \in TaskIds, pc \in 0..LEN : BoomArm(t, pc)) /\ Fin(15)
     \/ BoomClr /\ Fin(16)
     \/ (\E probe \in BOOLEAN : StartSession(probe)) /\ Fin(17)
     \/ EndSession /\ Fin(18)
     \/ (\E t \in TaskIds : RootReq(t)) /\ Fin(19)
     \/ BuBegin /\ Fin(20)

CNext == Reset \/ EndOfRun \/ Step

CSpec == CInit /\ [][CNext]_cvars

cview == <<st, ctl, prog, env, l, done>>

\* the monitors must stay silent on conforming behaviours as well (they do in PieTrace; this ties both together)
AllConsumed ==
  /\ PrintT(<<"CONFORM", TLCGet(1), TLCGet(2), Len(Rec)>>)
  /\ PrintT(<<"ACTIONS", [i \in DOMAIN ActNames |-> <<ActNames[i], TLCGet(10 + i)>>]>>)
=============================================================================
