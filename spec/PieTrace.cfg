SPECIFICATION Spec
CONSTANT EdgeReinsertMovesToBack = TRUE
POSTCONDITION Accepted
CHECK_DEADLOCK FALSE
