SPECIFICATION Spec
CONSTANT EdgeReinsertMovesToBack = FALSE
POSTCONDITION Accepted
CHECK_DEADLOCK FALSE
