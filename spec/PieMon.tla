------------------------------- MODULE PieMon -------------------------------
(***************************************************************************)
(* The listed properties C01..C09, C15, C17..C20 as monitors over the      *)
(* event alphabet.  A monitor consumes one event at a time together with   *)
(* the abstract store before the event; it is used                          *)
(*   - by Pie.tla on the events the operational specification emits        *)
(*     (design check: does the design admit a violation), and              *)
(*   - by PieTrace.tla on the events recorded from the implementation      *)
(*     (conformance: does this execution of the code violate a property).  *)
(* A violation is a pair <<property id, formula name>>.  Known findings    *)
(* (KF) are named structural predicates; when only such a predicate makes  *)
(* a formula true the monitor reports <<property id, finding id>> in k.    *)
(* P = [prog, nt, nr, nv, na, fam, base, exact, rinst, rown]; rinst[r] says *)
(* whether resource r is of an instrumented type (the library's own map    *)
(* resource is not: it cannot report reader/writer use or checker calls).  *)
(***************************************************************************)
EXTENDS PieCore

Diag == {"cyclic", "hidden", "overlap"}
\* families whose programs are well-formed in every state (TWOCHK programs use two checkers on one target and are
\* outside the domain of C01-C04; they exist for C08's recorded finding K2)
WFFams == {"WF", "FAULT", "ABORT", "IDENT"}

V(cond, tag) == IF cond THEN {} ELSE {tag}
NoFrame == [t |-> 0, bad |-> FALSE, err |-> FALSE, ex |-> FALSE, seq |-> <<>>]
NoPend == [k |-> "", r |-> 0, c |-> "", id |-> 0, v |-> 0, s |-> 0, ph |-> ""]
NoExp == [kind |-> "", own |-> "", kf |-> ""]
NoChk == [t |-> 0, bad |-> FALSE, err |-> FALSE]

MonInit(P) ==
  [sessN |-> 0, inSess |-> FALSE, probe |-> FALSE,
   res0 |-> <<>>, roots |-> <<>>, curRoot |-> 0,
   execd |-> [t \in 1..P.nt |-> 0],        \* executions per task in this session
   bexecd |-> {},                           \* tasks executed in the running build
   validated |-> {},                        \* tasks executed or reused in this session
   build |-> "none",                        \* "none" | "td" | "bu"
   vstk |-> <<>>,                           \* validation frames (top-down make_task_consistent calls)
   nstk |-> <<>>,                           \* nesting stack of tracker start events
   perf |-> [t \in 1..P.nt |-> <<>>],       \* dependencies performed by the latest execution (interpreter side)
   curop |-> [t \in 1..P.nt |-> [k |-> "", x |-> 0, c |-> "", f |-> 0, acc |-> 0]],
   twochk |-> {},                           \* tasks whose latest execution used two checkers on one target
   pend |-> NoPend, exp |-> NoExp,
   lastChk |-> NoChk, chkFresh |-> FALSE, mustSched |-> 0,
   errsExp |-> 0, errSeen |-> FALSE,
   prevRoots |-> {}, clean |-> FALSE, sessOk |-> TRUE,
   aborted |-> FALSE, everFault |-> FALSE, sessBU |-> FALSE,
   k1risk |-> FALSE,
   midChange |-> FALSE,                     \* a resource changed while this session was open: the session no longer sees one state                        \* a bottom-up build of this session started while tasks were stale after a top-down build (K1)
   changed |-> {}, reported |-> {}, buOk |-> FALSE,   \* C03 domain bookkeeping
   staleTD |-> {},
   lastEv |-> "", lastT |-> 0, lastO |-> NONE, lastReqEnd |-> [t |-> 0, o |-> NONE],
   fault |-> {}, boom |-> <<0, 0>>,
   pstk |-> <<>>,                            \* per executing task: the required task on whose behalf require_scheduled_now pulled it (0: none)
   blog |-> <<>>, builds |-> 0,              \* build_end events since the API call that runs a build started                            \* the events of the 10 kinds EventTracker records, since the last build_start
   cnt |-> [p \in {"C01","C02","C03","C04","C05","C06","C07","C08","C09","C15","C17","C18","C19","C20"} |-> 0]]

Bump(m, p) == [m EXCEPT !.cnt[p] = @ + 1]
R(m, v) == [m |-> m, v |-> v, k |-> {}]
RK(m, v, k) == [m |-> m, v |-> v, k |-> k]

\* which property owns a general correctness formula in the current context
Own(P, m, base) ==
  IF P.fam \notin WFFams /\ ~m.aborted THEN ""      \* C01-C04 only speak about programs that are well-formed in every state
  ELSE IF m.aborted THEN (IF P.fam \in WFFams THEN "C19" ELSE "")
  ELSE IF m.probe /\ m.buOk THEN "C03"
  ELSE IF P.fam = "IDENT" THEN "C15"
  ELSE IF P.fam = "FAULT" /\ m.everFault THEN "C18"
  ELSE base

TopF(m) == IF m.vstk = <<>> THEN NoFrame ELSE Last(m.vstk)
SetTop(m, f) == [m EXCEPT !.vstk = Append(Front(@), f)]
TopN(m) == IF m.nstk = <<>> THEN <<"", 0>> ELSE Last(m.nstk)
\* handlers run after the nesting automaton: for a start event the enclosing bracket is the second from the top,
\* for an end event (already popped) and for atomic events it is the top
Encl(m) == IF Len(m.nstk) < 2 THEN <<"", 0>> ELSE m.nstk[Len(m.nstk) - 1]

Ancestors(st, t) == {q \in Tasks(st) : Reach(st, q, t)}

\* order in which a validation must visit the recorded dependencies: first access per target in the latest execution
RECURSIVE FirstOcc(_, _)
FirstOcc(s, seen) ==
  IF s = <<>> THEN <<>>
  ELSE LET d == Head(s)
           key == <<IsTaskDep(d), d.x>>
       IN IF key \in seen THEN FirstOcc(Tail(s), seen)
          ELSE <<key>> \o FirstOcc(Tail(s), seen \cup {key})
IsPrefixOf(a, b) == Len(a) <= Len(b) /\ SubSeq(b, 1, Len(a)) = a

\* what the store keeps of a performed dependency list: per resource target the FIRST access (DAG::add_edge keeps the data
\* of the first insertion), per task target the LAST require (update_require_dependency overwrites).  With one checker per
\* target (and, for a generated resource, reads only after requiring the writer) all accesses to a target agree.
KeptIdx(perf) ==
  {i \in DOMAIN perf :
     IF IsTaskDep(perf[i]) THEN \A j \in DOMAIN perf : (j > i /\ IsTaskDep(perf[j])) => perf[j].x # perf[i].x
     ELSE \A j \in DOMAIN perf : (j < i /\ IsResDep(perf[j])) => perf[j].x # perf[i].x}
CanonSet(perf) == {[k |-> perf[i].k, x |-> perf[i].x, c |-> perf[i].c, s |-> perf[i].s] : i \in KeptIdx(perf)}
\* every observation the task made is protected by the record
Complete(perf, rec) == \A i \in DOMAIN perf : [k |-> perf[i].k, x |-> perf[i].x, c |-> perf[i].c, s |-> perf[i].s] \in rec
TwoCheckers(perf) ==
  \E i, j \in DOMAIN perf : i < j /\ IsTaskDep(perf[i]) = IsTaskDep(perf[j]) /\ perf[i].x = perf[j].x
                            /\ (perf[i].c # perf[j].c \/ perf[i].k # perf[j].k)

ModelRes(m, c, cur, s, r) == IF c = "eqF" /\ r \in m.fault THEN "err" ELSE IF RInc(c, cur, s) THEN "inc" ELSE "ok"

(***************************************************************************)
(* All orders of the known tasks, for the from-scratch side of C20.        *)
(***************************************************************************)
RECURSIVE Perms(_)
Perms(S) == IF S = {} THEN {<<>>} ELSE UNION {{<<x>> \o p : p \in Perms(S \ {x})} : x \in S}
SomeOrderAborts(P, known, res0) ==
  IF Cardinality(known) <= 5
  THEN \E p \in Perms(known) : Scratch(P, p, res0).status # "ok"
  ELSE TRUE    \* too many orders to decide: never alarm

(***************************************************************************)
(* Closure invariants at every normal return of a build (C05-3, C06-2).    *)
(***************************************************************************)
\* The reader-reaches-writer closure is claimed for programs in which the require that justifies a read is made by the
\* reader itself (well-formed programs and injections into them).  In role-changing programs an intermediate task can
\* stop requiring the writer later; pie re-validates hidden dependencies only when reader or writer re-executes.
\* A task without output is a leftover of an aborted execution (C19): it was reset and its dependency list is partial, e.g.
\* the require of the writer is not recorded yet.  It is executed again before anything that requires it is reused, and
\* that execution re-establishes or diagnoses the dependency.  A reader that is such a leftover, or that (transitively)
\* requires one, is therefore not a counterexample to the closure; every other reader must reach the writer.
Leftover(st) == {t \in DOMAIN st.out : st.out[t] = NONE}
Justified(st, q, w) ==
  \/ q = w \/ q \in Leftover(st)
  \/ LET rs == ReachSet(st, {q}, {}) IN w \in rs \/ rs \cap Leftover(st) # {}
ClosureViol(P, st) ==
  (IF \A r \in Ress(st) : Cardinality(AllWriters(st, r)) <= 1 THEN {} ELSE {<<"C06", "single_writer">>})
  \cup
  (IF P.fam = "ROLE" \/ \A r \in Ress(st) : LET w == WriterOf(st, r) IN
        w = 0 \/ \A q \in Range(ReadersOf(st, r)) : Justified(st, q, w)
   THEN {} ELSE {<<"C05", "closure">>})

(***************************************************************************)
(* Expectation of an abort raised by a start event, discharged by the      *)
(* panic event that must follow immediately.                                *)
(***************************************************************************)
PreCheck(P, m, st, e) ==
  LET v1 == IF m.exp.kind # "" /\ e.ev \notin {"root_panic", "bu_panic"} /\ m.exp.own # ""
            THEN {<<m.exp.own, "undetected_" \o m.exp.kind>>} ELSE {}
      m1 == IF m.exp.kind # "" /\ e.ev \notin {"root_panic", "bu_panic"} THEN [m EXCEPT !.exp = NoExp] ELSE m
      v2 == IF m1.mustSched # 0 /\ ~(e.ev = "schedule" /\ e.t = m1.mustSched)
            THEN {<<IF m1.lastChk.err THEN "C18" ELSE "C09", "inconsistent_not_scheduled">>} ELSE {}
      m2 == [m1 EXCEPT !.mustSched = 0]
  IN R(m2, v1 \cup v2)

(***************************************************************************)
(* Nesting automaton (C17-1).                                               *)
(***************************************************************************)
StartOf == [build_end |-> "build_start", require_end |-> "require_start", read_end |-> "read_start",
            write_end |-> "write_start", check_task_end |-> "check_task_start", check_res_end |-> "check_res_start",
            exec_end |-> "exec_start", sched_by_task_end |-> "sched_by_task_start", chk_req_end |-> "chk_req_start",
            sched_by_res_end |-> "sched_by_res_start", chk_read_end |-> "chk_read_start"]
Starts == {"build_start", "require_start", "read_start", "write_start", "check_task_start", "check_res_start",
           "exec_start", "sched_by_task_start", "chk_req_start", "sched_by_res_start", "chk_read_start"}
Subj(e) == IF e.ev \in {"build_start", "build_end"} THEN 0
           ELSE IF e.ev \in {"read_start", "read_end", "write_start", "write_end", "check_res_start", "check_res_end",
                             "sched_by_res_start", "sched_by_res_end"} THEN e.r ELSE e.t
Nest(m, e) ==
  IF e.ev \in Starts THEN R([m EXCEPT !.nstk = Append(@, <<e.ev, Subj(e)>>)], {})
  ELSE IF e.ev \in DOMAIN StartOf THEN
    IF m.nstk # <<>> /\ Last(m.nstk) = <<StartOf[e.ev], Subj(e)>>
    THEN R([m EXCEPT !.nstk = Front(@)], {})
    ELSE R(m, {<<"C17", "nesting">>})
  ELSE R(m, {})

(***************************************************************************)
(* Event handlers.  st: store before the event, st2: store after.          *)
(***************************************************************************)
OnSessStart(P, m, st, e) ==
  R([m EXCEPT !.sessN = @ + 1, !.inSess = TRUE, !.probe = e.probe, !.res0 = st.res, !.roots = <<>>,
              !.execd = [t \in 1..P.nt |-> 0], !.validated = {}, !.build = "none", !.vstk = <<>>, !.nstk = <<>>,
              !.errsExp = 0, !.errSeen = FALSE, !.sessOk = TRUE, !.pend = NoPend, !.exp = NoExp, !.sessBU = FALSE, !.k1risk = FALSE,
              !.pstk = <<>>, !.midChange = FALSE], {})

OnRootCall(P, m, st, e) ==
  R([m EXCEPT !.curRoot = e.t, !.build = "td", !.bexecd = {}, !.builds = 0], {})

OutputFormula(P, m, st, e, roots2) ==
  LET S == Scratch(P, roots2, m.res0)
      own == Own(P, m, "C01")
  IN IF m.midChange THEN {}      \* tasks made consistent before the change legitimately keep their results for this session
     ELSE IF m.sessBU /\ m.changed # {} THEN {}   \* the bottom-up build of this session was not told every change (e.g. it was
                                                  \* reported to an earlier build that aborted): tasks it trusted stay trusted
     ELSE IF S.status = "ok"
     THEN V(e.o = S.out[e.t], <<own, "output">>)
          \cup V(\A r \in 1..P.nr : S.wtr[r] = 0 \/ st.res[r] = S.res[r], <<own, "written_content">>)
          \cup (IF P.exact /\ P.fam \in {"WF", "IDENT"} /\ ~m.aborted /\ ~m.everFault /\ ~(m.probe /\ m.buOk) /\ m.staleTD = {} /\ ~m.sessBU
                THEN V({t \in 1..P.nt : m.execd[t] > 0} \subseteq S.vis, <<"C02", "superfluous_execution">>) ELSE {})
     ELSE IF P.fam \in WFFams THEN {<<"INTEGRITY", "wf_scenario_not_wf_" \o S.status>>} ELSE {}

OnRootRet(P, m, st, e) ==
  LET roots2 == Append(m.roots, e.t)
      own == Own(P, m, "C01")
      vo == OutputFormula(P, m, st, e, roots2)
      \* K1: tasks left stale by a top-down build are not repaired by the bottom-up build of this session
      k1 == m.k1risk /\ vo # {}
      v == (IF k1 THEN {} ELSE vo)
           \cup V(m.nstk = <<>>, <<"C17", "unclosed_at_return">>)
           \cup V(m.builds = 1 /\ m.lastEv = "build_end", <<"C17", "completed_build_without_events">>)
           \cup V(m.lastReqEnd = [t |-> e.t, o |-> e.o], <<"C17", "require_end_value">>)
           \cup ClosureViol(P, st)
      m1 == Bump(Bump([m EXCEPT !.roots = roots2, !.build = "none", !.vstk = <<>>], own), "C17")
  IN RK(IF m.execd # [t \in 1..P.nt |-> 0] \/ m.sessN > 1 THEN Bump(m1, "C02") ELSE m1, v,
        IF k1 /\ own # "" THEN {<<own, "K1_stale_requirer_after_top_down">>} ELSE {})

\* the edge that triggers a diagnosis belongs to a task not validated in this session (role-inversion findings)
StaleTrigger(m, st) == m.exp.kf

OnPanic(P, m, st, e) ==
  LET kind == e.kind
      inBU == e.ev = "bu_panic"
      \* (an execution the panic unwound through left its task without output: if the caller keeps the session and
      \* requires the task again, it must be executed again, so it does not count as an execution of this session)
      m1 == [m EXCEPT !.aborted = TRUE, !.vstk = <<>>, !.nstk = <<>>, !.pstk = <<>>, !.build = "none", !.exp = NoExp,
                      !.pend = NoPend, !.sessOk = FALSE, !.buOk = FALSE, !.mustSched = 0,
                      !.execd = [t \in 1..P.nt |-> IF t \in Range(st.estk) THEN 0 ELSE @[t]]]
      \* C05/C06/C07: the expected diagnosis was raised
      vExp == IF m.exp.kind # "" /\ m.exp.kind # kind /\ m.exp.own # ""
              THEN {<<m.exp.own, "wrong_abort_" \o kind>>} ELSE {}
      mCnt == IF m.exp.kind # "" /\ m.exp.kind = kind /\ m.exp.own # "" THEN Bump(m1, m.exp.own) ELSE m1
      \* C20: a diagnosis is only allowed when the current program really contains a violation
      scratchAborts == SomeOrderAborts(P, Range(st.known), m.res0)
      selfInflicted == m.exp.kind = kind /\ m.exp.own = "" /\ m.exp.kf = ""   \* read-own-write etc.: outside every quantifier
      \* (not judged when a resource changed while the session was open: tasks validated before and after the change
      \* ran in different states, and the mixture can contain a violation that neither state contains)
      v20 == IF kind \in Diag /\ ~m.midChange /\ ~scratchAborts /\ ~selfInflicted /\ (m.exp.kind # kind \/ m.exp.kf = "")
             THEN {<<IF m.aborted THEN "C19" ELSE "C20", "spurious_" \o kind>>} ELSE {}
      k20 == IF kind \in Diag /\ ~scratchAborts /\ m.exp.kind = kind /\ m.exp.kf # ""
             THEN {<<"C20", m.exp.kf>>} ELSE {}      \* role-inversion findings are C20's, also after an earlier abort
      \* C06-3: re-execution of the same writer is never an overlap
      v063 == IF kind = "overlap" /\ m.exp.kind # "overlap" THEN {<<"C06", "self_overlap">>} ELSE {}
      \* internal errors
      vBug == IF kind \in {"bug", "other"}
              THEN IF m.aborted THEN {<<"C19", "internal_error_after_abort">>}
                   ELSE IF m.probe /\ m.buOk THEN {<<"C03", "probe_panics">>}
                   ELSE {<<"UNATTRIBUTED", "internal_panic">>}
              ELSE IF kind = "diverged" THEN {<<"C07", "unbounded_recursion">>}
              ELSE IF kind = "boom" THEN V(m.boom # <<0, 0>>, <<"INTEGRITY", "boom_not_armed">>)
              ELSE IF kind = "harness" THEN {<<"INTEGRITY", "harness_panic">>}
              ELSE {}
      m2 == IF kind \in Diag THEN Bump(mCnt, IF m.aborted THEN "C19" ELSE "C20") ELSE mCnt
  IN RK(m2, vExp \cup v20 \cup v063 \cup vBug, k20)

OnBuBegin(P, m, st, e) ==
  R([m EXCEPT !.build = "bu", !.bexecd = {}, !.reported = {}, !.buOk = FALSE, !.vstk = <<>>, !.sessBU = TRUE,
              !.k1risk = @ \/ m.staleTD # {}], {})
OnBuSched(P, m, st, e) == R([m EXCEPT !.reported = @ \cup {e.r}], {})
OnBuRun(P, m, st, e) == R([m EXCEPT !.builds = 0], {})
OnBuRet(P, m, st, e) ==
  LET complete == m.changed \subseteq m.reported
  IN R(Bump([m EXCEPT !.build = "none", !.buOk = complete /\ ~m.aborted, !.changed = IF complete THEN {} ELSE @,
                 !.vstk = <<>>], "C04"),
       V(m.nstk = <<>>, <<"C17", "unclosed_at_return">>) \cup ClosureViol(P, st)
       \cup V(m.builds = 1 /\ m.lastEv = "build_end", <<"C17", "completed_build_without_events">>))

\* ---- requires --------------------------------------------------------------------------------------------------
OnRequireStart(P, m, st, e) ==
  LET cur == Cur(st)
      u == e.t
      op == IF cur = 0 THEN [k |-> "", x |-> 0, c |-> ""] ELSE m.curop[cur]
      vOp == IF cur = 0 THEN V(u = m.curRoot /\ e.c = "any", <<"C17", "root_require_event">>)
             ELSE V(op.k = "rq" /\ op.x = u /\ op.c = e.c, <<"C17", "event_matches_operation">>)
      onStack == cur # 0 /\ (u = cur \/ u \in Range(st.estk))
      staleCycle == cur # 0 /\ ~onStack /\ Reach(st, u, cur)
      \* the chain back to u runs through a task that a bottom-up require pulled in on behalf of a task X that has not
      \* been validated in this session: X's recorded (possibly outdated) dependencies decided that it runs here
      pos == IF onStack THEN CHOOSE i \in DOMAIN st.estk : st.estk[i] = u ELSE 0
      viaStalePull == onStack /\ Len(m.pstk) = Len(st.estk)
                      /\ \E i \in DOMAIN m.pstk : i > pos /\ m.pstk[i] # 0 /\ m.pstk[i] \notin m.validated
      exp == IF viaStalePull THEN [kind |-> "cyclic", own |-> "", kf |-> "K4_stale_require_cycle"]
             ELSE IF onStack THEN [kind |-> "cyclic", own |-> "C07", kf |-> ""]
             ELSE IF staleCycle THEN [kind |-> "cyclic", own |-> "", kf |-> "K4_stale_require_cycle"]
             ELSE NoExp
      m1 == [m EXCEPT !.exp = exp, !.vstk = Append(@, [NoFrame EXCEPT !.t = u])]
  IN R(m1, vOp)

OnRequireEnd(P, m, st, e) ==
  LET f == TopF(m)
      u == e.t
      vF == V(f.t = u, <<"C17", "require_end_frame">>)
      vStamp == V(e.s = OStamp(e.c, e.o), <<"C09", "require_stamp">>)
      vVal == V(u \in Tasks(st) /\ e.o = st.out[u], <<"C17", "require_end_output">>)
      \* a validation that saw an inconsistent (or failing) dependency must have executed the task
      vInc == IF f.t = u /\ f.bad /\ ~f.ex
              THEN {<<IF f.err THEN "C18" ELSE "C09", "inconsistent_dependency_reused">>} ELSE {}
      \* a task is reused only after every dependency recorded by its latest execution has been validated
      \* (unless it was already made consistent earlier in this session)
      vAll == IF m.build = "td" /\ f.t = u /\ ~f.bad /\ ~f.ex /\ u \notin m.validated /\ u \in Tasks(st) /\ st.out[u] # NONE
                 /\ f.seq # FirstOcc(m.perf[u], {})
              THEN {<<"C09", "reused_without_validating_every_dependency">>} ELSE {}
      \* the task was really validated (not just found in the session's consistent set, which a bottom-up require of an
      \* unaffected task also fills)
      validatedNow == f.t = u /\ (f.ex \/ f.seq # <<>> \/ (u \in Tasks(st) /\ st.deps[u] = <<>>))
      m1 == [m EXCEPT !.vstk = IF @ = <<>> THEN @ ELSE Front(@), !.validated = @ \cup {u},
                      !.staleTD = IF m.build = "td" /\ validatedNow THEN @ \ {u} ELSE @,
                      !.lastReqEnd = [t |-> u, o |-> e.o]]
  IN R(Bump(m1, "C09"), vF \cup vStamp \cup vVal \cup vInc \cup vAll)

\* ---- reads -----------------------------------------------------------------------------------------------------
OnRdOpen(P, m, st, e) ==
  IF Cur(st) = 0 THEN R(m, {})
  ELSE R([m EXCEPT !.pend = [NoPend EXCEPT !.k = "rd", !.r = e.r, !.id = e.id, !.v = e.v, !.ph = "open"]],
         V(e.r \in Ress(st) /\ e.v = st.res[e.r], <<"INTEGRITY", "resource_log_incomplete">>))

OnReadStart(P, m, st, e) ==
  LET cur == Cur(st)
      op == IF cur = 0 THEN [k |-> "", x |-> 0, c |-> ""] ELSE m.curop[cur]
      w == IF e.r \in Ress(st) THEN WriterOf(st, e.r) ELSE 0
      hidden == cur # 0 /\ w # 0 /\ ~Reach(st, cur, w)
      exp == IF ~hidden THEN NoExp
             ELSE IF w = cur THEN [kind |-> "hidden", own |-> "", kf |-> ""]
             ELSE [kind |-> "hidden", own |-> "C05", kf |-> IF w \in m.validated THEN "" ELSE "K5_stale_writer_hidden"]
      vOp == IF cur = 0 THEN {} ELSE V(op.k = "rd" /\ op.x = e.r /\ op.c = e.c, <<"C17", "event_matches_operation">>)
      inst == e.r \in 1..P.nr /\ P.rinst[e.r]
      vT == IF cur = 0 \/ ~inst THEN {} ELSE V(m.pend.k = "rd" /\ m.pend.r = e.r /\ m.pend.ph = "open", <<"C09", "read_reader_first">>)
  IN R([m EXCEPT !.exp = exp, !.pend = IF inst THEN @ ELSE NoPend], vOp \cup vT)

OnStampReader(P, m, st, e) ==
  LET ok == m.pend.k = "rd" /\ m.pend.id = e.id /\ m.pend.r = e.r /\ m.pend.ph = "open"
      cur == Cur(st)
      vC == IF cur = 0 THEN {} ELSE V(m.curop[cur].c = e.c, <<"C09", "read_own_checker">>)
  IN R(Bump([m EXCEPT !.pend.ph = "stamped", !.pend.s = e.s, !.pend.c = e.c], "C09"),
       V(ok, <<"C09", "read_stamp_from_handed_reader">>)
       \cup V(~ok \/ e.s = RStamp(e.c, m.pend.v), <<"C09", "read_stamp_value">>) \cup vC)

OnReadEnd(P, m, st, e) ==
  IF Cur(st) = 0 THEN R(m, {})
  ELSE IF e.r \in 1..P.nr /\ ~P.rinst[e.r]
  THEN R(Bump(m, "C09"), V(e.s = RStamp(e.c, st.res[e.r]), <<"C09", "read_stamp_timely">>))     \* uninstrumented: the stamp value only
  ELSE R([m EXCEPT !.pend.ph = IF @ = "stamped" THEN "ended" ELSE @],
         V(m.pend.k = "rd" /\ m.pend.ph = "stamped" /\ m.pend.s = e.s /\ m.pend.c = e.c /\ m.pend.r = e.r,
           <<"C09", "read_stamp_recorded">>)
         \cup V(e.r \notin Ress(st) \/ e.s = RStamp(e.c, st.res[e.r]), <<"C09", "read_stamp_timely">>))

OnRdUse(P, m, st, e) ==
  R([m EXCEPT !.pend = NoPend],
    V(m.pend.k = "rd" /\ m.pend.id = e.id /\ m.pend.ph = "ended", <<"C09", "read_after_stamp_same_reader">>))

\* ---- writes ----------------------------------------------------------------------------------------------------
OnWriteStart(P, m, st, e) ==
  LET cur == Cur(st)
      op == IF cur = 0 THEN [k |-> "", x |-> 0, c |-> ""] ELSE m.curop[cur]
      r == e.r
      w == IF r \in Ress(st) THEN WriterOf(st, r) ELSE 0
      rdrs == IF r \in Ress(st) THEN Range(ReadersOf(st, r)) ELSE {}
      badRdrs == {q \in rdrs : ~Reach(st, q, cur)}
      exp == IF cur = 0 THEN NoExp
             ELSE IF w # 0 /\ w # cur
                  THEN [kind |-> "overlap", own |-> "C06", kf |-> IF w \in m.validated THEN "" ELSE "K3_stale_writer_overlap"]
             ELSE IF w = cur THEN [kind |-> "overlap", own |-> "", kf |-> ""]
             ELSE IF badRdrs # {}
                  THEN IF badRdrs = {cur} THEN [kind |-> "hidden", own |-> "", kf |-> ""]
                       ELSE [kind |-> "hidden", own |-> "C05",
                             kf |-> IF (badRdrs \ {cur}) \cap m.validated = {} THEN "K5_stale_reader_hidden" ELSE ""]
             ELSE NoExp
      vOp == IF cur = 0 THEN {} ELSE V(op.k \in {"wr", "wt"} /\ op.x = r /\ op.c = e.c, <<"C17", "event_matches_operation">>)
      twoStep == cur # 0 /\ op.k = "wt"
      pend == IF twoStep THEN [m.pend EXCEPT !.ph = IF @ = "set" THEN "validated" ELSE @, !.c = e.c]
              ELSE [NoPend EXCEPT !.k = "wr", !.r = r, !.c = e.c, !.ph = "validated"]
      vT == IF twoStep THEN V(m.pend.k = "wr" /\ m.pend.r = r /\ m.pend.ph = "set", <<"C09", "declared_write_after_writing">>) ELSE {}
  IN R([m EXCEPT !.exp = exp, !.pend = pend], vOp \cup vT)

OnWrOpen(P, m, st, e) ==
  LET cur == Cur(st) IN
  IF cur = 0 THEN R(m, {})
  ELSE IF m.curop[cur].k = "wt"
       THEN R([m EXCEPT !.pend = [NoPend EXCEPT !.k = "wr", !.r = e.r, !.id = e.id, !.ph = "open"]], {})
       ELSE R([m EXCEPT !.pend.id = e.id, !.pend.ph = IF @ = "validated" THEN "open" ELSE @],
              V(m.pend.k = "wr" /\ m.pend.ph = "validated" /\ m.pend.r = e.r, <<"C06", "write_validated_before_writer">>))

OnResSet(P, m, st, e) ==
  LET cur == Cur(st) IN
  IF cur = 0 THEN R(m, {<<"INTEGRITY", "write_outside_task">>})
  ELSE IF e.r \in 1..P.nr /\ ~P.rinst[e.r]
  THEN R([m EXCEPT !.pend.ph = "set", !.pend.k = "wr", !.pend.r = e.r], {})
  ELSE R([m EXCEPT !.pend.ph = IF @ = "open" THEN "set" ELSE @],
         V(m.pend.k = "wr" /\ m.pend.r = e.r /\ m.pend.ph \in {"open", "set"}, <<"C09", "write_through_open_writer">>))

OnStampWriter(P, m, st, e) ==
  \* stamp of a write: any route, but after the write function finished and of the content as it is now
  LET cur == Cur(st) IN
  IF cur = 0 \/ m.pend.k # "wr" THEN R(m, {})
  ELSE R(Bump([m EXCEPT !.pend.ph = "stamped", !.pend.s = e.s], "C09"),
         V(m.pend.ph \in {"set", "validated"} /\ m.pend.r = e.r, <<"C09", "write_stamp_after_write">>)
         \cup V(e.r \notin Ress(st) \/ e.s = RStamp(e.c, st.res[e.r]), <<"C09", "write_stamp_value">>)
         \cup V(m.curop[cur].c = e.c, <<"C09", "write_own_checker">>))

OnWriteEnd(P, m, st, e) ==
  IF Cur(st) = 0 THEN R(m, {})
  ELSE IF e.r \in 1..P.nr /\ ~P.rinst[e.r]
  THEN R(Bump([m EXCEPT !.pend = NoPend], "C09"),
         V(m.pend.k = "wr" /\ m.pend.r = e.r /\ m.pend.ph \in {"set", "validated"}, <<"C09", "write_stamp_after_write">>)
         \cup V(e.s = RStamp(e.c, st.res[e.r]), <<"C09", "write_stamp_timely">>))
  ELSE R([m EXCEPT !.pend = NoPend],
         V(m.pend.k = "wr" /\ m.pend.ph = "stamped" /\ m.pend.s = e.s /\ m.pend.r = e.r, <<"C09", "write_stamp_recorded">>)
         \cup V(e.r \notin Ress(st) \/ e.s = RStamp(e.c, st.res[e.r]), <<"C09", "write_stamp_timely">>))

\* ---- top-down validation ---------------------------------------------------------------------------------------
DepRecorded(st, t, d) == t \in Tasks(st) /\ d \in Range(st.deps[t])

ValidationOrder(P, m, st, f, key) ==
  \* the targets validated so far (plus this one) must follow the first-access order of the latest execution
  LET seq2 == Append(f.seq, key)
  IN IsPrefixOf(seq2, FirstOcc(m.perf[f.t], {}))

OnCheckTaskStart(P, m, st, e) ==
  LET f == TopF(m)
      d == [k |-> "rq", x |-> e.t, c |-> e.c, s |-> e.s]
      key == <<TRUE, e.t>>
      v == V(f.t # 0 /\ DepRecorded(st, f.t, d), <<"C08", "validated_dependency_not_recorded">>)
           \cup V(f.t # 0 /\ DepRecorded(st, f.t, d), <<"C09", "check_not_on_recorded_checker_and_stamp">>)
           \cup V(~f.bad, <<Own(P, m, "C02"), "continued_after_inconsistent">>)
           \cup (IF f.t = 0 THEN {} ELSE V(ValidationOrder(P, m, st, f, key), <<Own(P, m, "C02"), "validation_order">>))
      m1 == SetTop(m, [f EXCEPT !.seq = Append(@, key)])
  IN R([m1 EXCEPT !.vstk = Append(@, [NoFrame EXCEPT !.t = e.t])], v)

OnCheckTaskEnd(P, m, st, e) ==
  LET fu == TopF(m)
      validatedNow == fu.t = e.t /\ (fu.ex \/ fu.seq # <<>> \/ (e.t \in Tasks(st) /\ st.deps[e.t] = <<>>))
      m1 == [m EXCEPT !.vstk = IF @ = <<>> THEN @ ELSE Front(@), !.validated = @ \cup {e.t},
                      !.staleTD = IF m.build = "td" /\ validatedNow THEN @ \ {e.t} ELSE @]
      f == TopF(m1)
      inc == e.t \in Tasks(st) /\ OInc(e.c, st.out[e.t], e.s)
      v == V(fu.t = e.t, <<"C17", "check_task_frame">>)
           \cup V((e.res = "inc") = inc, <<"C09", "task_check_result">>)
           \cup (IF fu.t = e.t /\ fu.bad /\ ~fu.ex
                 THEN {<<IF fu.err THEN "C18" ELSE "C09", "inconsistent_dependency_reused">>} ELSE {})
           \cup (IF m.build = "td" /\ fu.t = e.t /\ ~fu.bad /\ ~fu.ex /\ e.t \notin m.validated /\ e.t \in Tasks(st) /\ st.out[e.t] # NONE
                    /\ fu.seq # FirstOcc(m.perf[e.t], {})
                 THEN {<<"C09", "reused_without_validating_every_dependency">>} ELSE {})
      m2 == IF f.t = 0 THEN m1 ELSE SetTop(m1, [f EXCEPT !.bad = @ \/ inc])
  IN R(Bump(m2, "C09"), v)

OnCheckResStart(P, m, st, e) ==
  LET f == TopF(m)
      key == <<FALSE, e.r>>
      rec == f.t # 0 /\ f.t \in Tasks(st)
             /\ \E d \in Range(st.deps[f.t]) : IsResDep(d) /\ d.x = e.r /\ d.c = e.c /\ d.s = e.s
      v == V(rec, <<"C08", "validated_dependency_not_recorded">>) \cup V(rec, <<"C09", "check_not_on_recorded_checker_and_stamp">>)
           \cup V(~f.bad, <<Own(P, m, "C02"), "continued_after_inconsistent">>)
           \cup (IF f.t = 0 THEN {} ELSE V(ValidationOrder(P, m, st, f, key), <<Own(P, m, "C02"), "validation_order">>))
  IN R(SetTop(m, [f EXCEPT !.seq = Append(@, key)]), v)

OnCheckCall(P, m, st, e) ==
  \* a call received by an instrumented resource checker: must be made for the dependency being validated
  LET top == TopN(m)
      inBracket == top[1] \in {"check_res_start", "chk_read_start"}
      mres == IF e.r \in Ress(st) THEN ModelRes(m, e.c, st.res[e.r], e.s, e.r) ELSE "?"
  IN R(Bump(m, "C09"),
       V(inBracket, <<"C09", "check_outside_validation">>)
       \cup V(e.res = mres, <<"INTEGRITY", "checker_semantics">>))

OnCheckResEnd(P, m, st, e) ==
  LET f == TopF(m)
      mres == IF e.r \in Ress(st) THEN ModelRes(m, e.c, st.res[e.r], e.s, e.r) ELSE "?"
      bad == mres # "ok"
      v == V(e.res = mres, <<"C09", "resource_check_result">>)
      m1 == IF f.t = 0 THEN m ELSE SetTop(m, [f EXCEPT !.bad = @ \/ bad, !.err = @ \/ (mres = "err")])
      m2 == IF mres = "err" THEN Bump([m1 EXCEPT !.errsExp = @ + 1, !.errSeen = TRUE], "C18") ELSE m1
  IN R(Bump(m2, "C09"), v)

\* ---- execution -------------------------------------------------------------------------------------------------
OnExecStart(P, m, st, e) ==
  LET t == e.t
      f == TopF(m)
      own == Own(P, m, "C02")
      isBU == m.build = "bu"
      c04 == IF P.fam \in WFFams /\ ~m.aborted THEN "C04" ELSE ""
      vOnce == IF isBU THEN V(t \notin m.bexecd, <<c04, "executed_twice_in_build">>)
               ELSE V(m.execd[t] = 0, <<own, "executed_twice_in_session">>)
      known == t \in Tasks(st)
      vJust == IF ~known THEN {<<"INTEGRITY", "unknown_task">>}
               ELSE IF isBU
               THEN V(t \in st.queue \/ st.out[t] = NONE, <<c04, "unaffected_task_executed">>)
                    \cup V(t \notin st.queue \/ \A q \in st.queue \ {t} : ~Reach(st, t, q), <<c04, "executed_before_scheduled_dependency">>)
               ELSE V(f.t = t, <<"C17", "execution_outside_validation">>)
                    \cup V(f.t # t \/ st.out[t] = NONE \/ f.bad,
                           <<own, "unjustified_execution">>)
      \* C17: a bottom-up build only executes a task it has announced by a schedule event, unless the execution is the
      \* direct answer to a require of that very task (new task, task without output)
      vAnn == IF isBU /\ known /\ f.t # t THEN V(t \in st.queue, <<"C17", "executed_without_schedule_event">>) ELSE {}
      vIdem == IF ~isBU /\ m.clean /\ m.curRoot \in m.prevRoots /\ ~m.aborted /\ m.fault = {} /\ P.fam \in WFFams /\ m.staleTD = {}
               THEN {<<"C02", "not_idempotent">>} ELSE {}
      \* C03: a probe after a complete bottom-up build executes nothing (K1: stale after top-down-then-bottom-up)
      probeExec == m.probe /\ m.buOk /\ ~isBU /\ P.fam \in WFFams /\ m.fault = {}
      v03 == IF probeExec /\ t \notin m.staleTD THEN {<<"C03", "stale_after_bottom_up">>} ELSE {}
      k03 == IF probeExec /\ t \in m.staleTD THEN {<<"C03", "K1_stale_requirer_after_top_down">>} ELSE {}
      pulledFor == IF isBU /\ f.t # 0 /\ f.t # t THEN f.t ELSE 0
      m1 == [m EXCEPT !.execd[t] = @ + 1, !.bexecd = @ \cup {t}, !.pstk = Append(@, pulledFor),
                      !.perf[t] = <<>>, !.twochk = @ \ {t},
                      !.curop[t] = [k |-> "", x |-> 0, c |-> "", f |-> 0, acc |-> 0],
                      !.vstk = IF f.t = t THEN Append(Front(@), [f EXCEPT !.ex = TRUE]) ELSE @]
      m2 == Bump(Bump(m1, IF isBU THEN "C04" ELSE "C02"), "C08")
  IN RK(IF probeExec THEN Bump(m2, "C03") ELSE m2, vOnce \cup vJust \cup vAnn \cup vIdem \cup v03, k03)

OnTaskEnter(P, m, st, e) ==
  R(Bump(m, "C17"), V(m.lastEv = "exec_start" /\ m.lastT \in 1..P.nt /\ P.base[m.lastT] = e.t, <<"C17", "execution_without_event">>))

PerfEntry(P, m, st, t, op, acc) ==
  \* the dependency an operation creates, with the stamp the specification says it must carry
  CASE op.k = "rd" -> <<[k |-> "rd", x |-> op.x, c |-> op.c, s |-> RStamp(op.c, st.res[op.x])]>>
    [] op.k \in {"wr", "wt"} -> <<[k |-> "wr", x |-> op.x, c |-> op.c, s |-> RStamp(op.c, F(op.f, acc, P.nv))]>>
    [] op.k = "rq" -> <<[k |-> "rq", x |-> op.x, c |-> op.c, s |-> -98]>>   \* stamp filled in when the require returns
    [] OTHER -> <<>>

\* fills in the stamp of a pending require entry of task t once the required task's output is known
FinishRq(m, st, t) ==
  LET p == m.perf[t] IN
  IF p # <<>> /\ Last(p).k = "rq" /\ Last(p).s = -98 /\ Last(p).x \in Tasks(st) /\ st.out[Last(p).x] # NONE
  THEN [m EXCEPT !.perf[t] = Append(Front(p), [Last(p) EXCEPT !.s = OStamp(Last(p).c, st.out[Last(p).x])])]
  ELSE m

OnOp(P, m, st, e) ==
  LET cur == Cur(st)
      key == <<e.t, e.pc, e.acc>>
      defined == key \in DOMAIN P.prog
      op == IF defined THEN P.prog[key] ELSE [k |-> "ret", x |-> 0, c |-> "", f |-> 0]
      okT == cur # 0 /\ P.base[cur] = e.t
      m0 == IF okT THEN FinishRq(m, st, cur) ELSE m
      prev == IF okT THEN m.curop[cur] ELSE [k |-> "", x |-> 0, c |-> "", f |-> 0, acc |-> 0]
      \* the value handed to the requirer is the one announced by require_end (as far as its checker observes)
      vReq == IF okT /\ prev.k = "rq" /\ m.lastEv = "require_end" /\ m.lastReqEnd.t = prev.x
              THEN V(e.acc = Mix(prev.acc, OObs(prev.c, m.lastReqEnd.o), P.na), <<"C17", "require_end_value">>) ELSE {}
      vReqEv == IF okT /\ prev.k = "rq" THEN V(m.lastEv = "require_end" /\ m.lastReqEnd.t = prev.x, <<"C17", "completed_require_without_events">>) ELSE {}
      m1 == IF okT
            THEN [m0 EXCEPT !.curop[cur] = [k |-> op.k, x |-> op.x, c |-> op.c, f |-> op.f, acc |-> e.acc],
                            !.perf[cur] = @ \o PerfEntry(P, m0, st, cur, op, e.acc)]
            ELSE m0
      m2 == IF okT /\ TwoCheckers(m1.perf[cur]) THEN [m1 EXCEPT !.twochk = @ \cup {cur}] ELSE m1
  IN R(m2, V(okT, <<"C17", "operation_outside_execution">>) \cup vReq \cup vReqEv
           \cup V(defined, <<"INTEGRITY", "program_hole_reached">>))

OnTaskExit(P, m, st, e) ==
  LET cur == Cur(st)
      okT == cur # 0 /\ P.base[cur] = e.t
  IN R(IF okT THEN FinishRq(m, st, cur) ELSE m, V(okT, <<"C17", "operation_outside_execution">>))

OnExecEnd(P, m, st, st2, e) ==
  LET t == e.t
      f == TopF(m)
      vF == V(m.lastEv = "task_exit" /\ m.lastT \in 1..P.nt /\ P.base[t] = m.lastT /\ m.lastO = e.o /\ Cur(st) = t,
              <<"C17", "execute_end_output">>)
      \* C08: the record held after the execution is exactly what the task performed
      exact == t \in Tasks(st2) /\ Range(st2.deps[t]) = CanonSet(m.perf[t])
      complete == t \in Tasks(st2) /\ Complete(m.perf[t], Range(st2.deps[t]))
      v08 == IF exact THEN {} ELSE {<<"C08", "record_differs_from_performed">>}
      k08 == IF exact /\ ~complete /\ t \in m.twochk THEN {<<"C08", "K2_two_checkers_one_target">>} ELSE {}
      anc == IF t \in Tasks(st2) THEN Ancestors(st2, t) ELSE {}
      m1 == [m EXCEPT !.validated = @ \cup {t}, !.pstk = IF @ = <<>> THEN @ ELSE Front(@),
                      !.staleTD = IF m.build = "td" THEN (@ \cup anc) \ {t} ELSE @ \ {t}]
  IN RK(Bump(m1, "C17"), vF \cup v08, k08)

\* ---- bottom-up scheduling --------------------------------------------------------------------------------------
OnChkReadStart(P, m, st, e) ==
  LET top == Encl(m)
      r == IF top[1] = "sched_by_res_start" THEN top[2] ELSE 0
      rec == r \in Ress(st) /\ e.t \in Tasks(st)
             /\ \E d \in Range(st.deps[e.t]) : IsResDep(d) /\ d.x = r /\ d.c = e.c /\ d.s = e.s
  IN R(m, V(rec, <<"C08", "scheduled_by_unrecorded_dependency">>) \cup V(rec, <<"C09", "check_not_on_recorded_checker_and_stamp">>))

OnChkReadEnd(P, m, st, e) ==
  LET top == TopN(m)
      r == IF top[1] = "sched_by_res_start" THEN top[2] ELSE 0
      mres == IF r \in Ress(st) THEN ModelRes(m, e.c, st.res[r], e.s, r) ELSE "?"
      bad == mres # "ok"
      m1 == [m EXCEPT !.lastChk = [t |-> e.t, bad |-> bad, err |-> mres = "err"], !.chkFresh = TRUE,
                      !.mustSched = IF bad THEN e.t ELSE 0]
      m2 == IF mres = "err" THEN Bump([m1 EXCEPT !.errsExp = @ + 1, !.errSeen = TRUE], "C18") ELSE m1
  IN R(Bump(m2, "C04"), V(e.res = mres, <<"C09", "resource_check_result">>))

OnChkReqStart(P, m, st, e) ==
  LET top == Encl(m)
      u == IF top[1] = "sched_by_task_start" THEN top[2] ELSE 0
      d == [k |-> "rq", x |-> u, c |-> e.c, s |-> e.s]
  IN R(m, V(u # 0 /\ DepRecorded(st, e.t, d), <<"C08", "scheduled_by_unrecorded_dependency">>)
          \cup V(u # 0 /\ DepRecorded(st, e.t, d), <<"C09", "check_not_on_recorded_checker_and_stamp">>))

OnChkReqEnd(P, m, st, e) ==
  LET top == TopN(m)
      u == IF top[1] = "sched_by_task_start" THEN top[2] ELSE 0
      inc == u \in Tasks(st) /\ OInc(e.c, st.out[u], e.s)
      m1 == [m EXCEPT !.lastChk = [t |-> e.t, bad |-> inc, err |-> FALSE], !.chkFresh = TRUE,
                      !.mustSched = IF inc THEN e.t ELSE 0]
  IN R(Bump(m1, "C04"), V((e.res = "inc") = inc, <<"C09", "task_check_result">>))

OnSchedule(P, m, st, e) ==
  R(m, V(m.chkFresh /\ m.lastChk.t = e.t /\ m.lastChk.bad,
         <<IF P.fam \in WFFams /\ ~m.aborted THEN "C04" ELSE "", "scheduled_without_inconsistent_dependency">>))

\* ---- the recording tracker (C17-5): stored events, indices and query helpers agree with the stream ----------------------
RecordedKinds == {"build_start", "build_end", "require_start", "require_end", "read_start", "read_end", "write_start",
                  "write_end", "exec_start", "exec_end"}
B01(x) == IF x THEN 1 ELSE 0
FirstIdx(evs, k, x) == LET I == {i \in DOMAIN evs : evs[i].k = k /\ evs[i].x = x} IN
                       IF I = {} THEN -1 ELSE (CHOOSE i \in I : \A j \in I : i <= j) - 1
RangeOf(evs, k1, k2, x) == IF FirstIdx(evs, k1, x) = -1 \/ FirstIdx(evs, k2, x) = -1 THEN <<-1, -1>>
                           ELSE <<FirstIdx(evs, k1, x), FirstIdx(evs, k2, x)>>
EventTrackerViol(P, m, evt) ==
  LET evs == evt.evs
      slice == Len(evs) = Len(m.blog)
               /\ \A i \in DOMAIN evs : evs[i].k = m.blog[i].k /\ evs[i].x = m.blog[i].x /\ evs[i].i = i - 1
      helpers == \A i \in DOMAIN evs : LET ev == evs[i] IN
        /\ ev.h = <<B01(ev.k = "build_start"), B01(ev.k = "build_end"), B01(ev.k \in {"exec_start", "exec_end"})>>
        /\ \A t \in 1..P.nt : ev.mt[t] = <<B01(ev.k = "require_start" /\ ev.x = t), B01(ev.k = "require_end" /\ ev.x = t),
                                             B01(ev.k \in {"exec_start", "exec_end"} /\ ev.x = t),
                                             B01(ev.k = "exec_start" /\ ev.x = t), B01(ev.k = "exec_end" /\ ev.x = t)>>
        /\ \A r \in 1..P.nr : ev.mr[r] = <<B01(ev.k = "read_start" /\ ev.x = r), B01(ev.k = "read_end" /\ ev.x = r),
                                             B01(ev.k = "write_start" /\ ev.x = r), B01(ev.k = "write_end" /\ ev.x = r)>>
      queries ==
        /\ evt.any_execute = B01(\E i \in DOMAIN evs : evs[i].k \in {"exec_start", "exec_end"})
        /\ \A t \in 1..P.nt : LET q == evt.qt[t] IN
             /\ q.any = B01(\E i \in DOMAIN evs : evs[i].k \in {"exec_start", "exec_end"} /\ evs[i].x = t)
             /\ q.one = B01(Cardinality({i \in DOMAIN evs : evs[i].k = "exec_start" /\ evs[i].x = t}) = 1)
             /\ q.req = RangeOf(evs, "require_start", "require_end", t)
             /\ q.exe = RangeOf(evs, "exec_start", "exec_end", t)
             /\ q.exe_end = FirstIdx(evs, "exec_end", t)
        /\ \A r \in 1..P.nr : LET q == evt.qr[r] IN
             /\ q.rd = RangeOf(evs, "read_start", "read_end", r) /\ q.rd_end = FirstIdx(evs, "read_end", r)
             /\ q.wr = RangeOf(evs, "write_start", "write_end", r) /\ q.wr_end = FirstIdx(evs, "write_end", r)
  IN V(slice, <<"C17", "recorded_events_differ_from_stream">>)
     \cup V(helpers, <<"C17", "event_helper_answers">>)
     \cup V(queries, <<"C17", "tracker_query_answers">>)

\* ---- session end -----------------------------------------------------------------------------------------------
DumpDeps(td) == {[k |-> d.k, x |-> d.x, c |-> d.c, s |-> d.s] : d \in Range(td.deps)}

OnSessEnd(P, m, st, e) ==
  IF "failed" \in DOMAIN e.dump THEN
    \* the read-only dump of the real store panicked: the store's redundant encodings of the edge set disagree (C11);
    \* the dump-based formulas cannot be evaluated for this session
    R([m EXCEPT !.inSess = FALSE, !.prevRoots = {}, !.clean = FALSE, !.vstk = <<>>, !.nstk = <<>>, !.build = "none", !.probe = FALSE],
      {<<"C11", "store_encodings_disagree">>})
  ELSE
  LET \* contents at session end vs. the logged mutations: for instrumented resources a difference is a defect of the log;
      \* for the library's own resources (whose write function reports what it stored) it is the resource that lost or kept data
      vRes == UNION {IF e.res[r] = st.res[r] THEN {}
                     ELSE IF P.rinst[r] THEN {<<"INTEGRITY", "resource_log_incomplete">>}
                     ELSE {<<P.rown[r], "content_differs_from_what_was_written">>} : r \in 1..P.nr}
      vErr == IF e.errs >= 0 THEN V(e.errs = m.errsExp, <<"C18", "reported_error_count">>) ELSE {}
      vTrk == V(e.trk_same, <<"C17", "composite_children_differ">>)
      dt == e.dump.tasks
      \* C08 against the real store: completed tasks hold exactly what they performed
      done == {i \in DOMAIN dt : dt[i].t \in 1..P.nt /\ dt[i].o # NONE /\ st.out[dt[i].t] # NONE}
      bad08 == {i \in done : DumpDeps(dt[i]) # CanonSet(m.perf[dt[i].t])}
      v08 == IF bad08 = {} THEN {} ELSE {<<"C08", "store_differs_from_performed">>}
      k08 == IF \E i \in done \ bad08 : dt[i].t \in m.twochk /\ ~Complete(m.perf[dt[i].t], DumpDeps(dt[i]))
             THEN {<<"C08", "K2_two_checkers_one_target">>} ELSE {}
      \* C06-2 on the real store
      wr == [r \in 1..P.nr |-> {i \in DOMAIN dt : \E d \in Range(dt[i].deps) : d.k = "wr" /\ d.x = r}]
      v06 == IF m.sessOk THEN V(\A r \in 1..P.nr : Cardinality(wr[r]) <= 1, <<"C06", "single_writer_store">>) ELSE {}
      \* cached outputs of the real store agree with the abstract store
      vOut == V(\A i \in DOMAIN dt : dt[i].t \notin 1..P.nt \/ dt[i].o = st.out[dt[i].t], <<"C17", "execute_end_output_stored">>)
      \* drift (not a property): iteration order of the real store vs the abstract store
      allRoots == {m.roots[i] : i \in DOMAIN m.roots}
      m1 == [m EXCEPT !.inSess = FALSE, !.prevRoots = IF m.sessOk THEN allRoots ELSE {},
                      !.clean = m.sessOk /\ m.errsExp = 0, !.vstk = <<>>, !.nstk = <<>>, !.build = "none",
                      !.probe = FALSE,
                      !.buOk = IF m.probe THEN FALSE ELSE @]
      vEvt == IF "evt" \in DOMAIN e THEN EventTrackerViol(P, m, e.evt) ELSE {}
  IN RK(Bump(Bump(m1, "C08"), "C18"), vRes \cup vErr \cup vTrk \cup v08 \cup v06 \cup vOut \cup vEvt, k08)

OnExt(P, m, st, e) ==
  CASE e.ev = "ext_set" -> R([m EXCEPT !.clean = FALSE, !.changed = @ \cup {e.r}, !.buOk = FALSE,
                                        !.midChange = @ \/ m.inSess, !.sessOk = IF m.inSess THEN FALSE ELSE @], {})
    [] e.ev = "fault" -> R([m EXCEPT !.clean = FALSE, !.everFault = TRUE,
                                     !.fault = IF e.on THEN @ \cup {e.r} ELSE @ \ {e.r}], {})
    [] e.ev = "boom_arm" -> R([m EXCEPT !.clean = FALSE, !.boom = <<e.t, e.pc>>], {})
    [] e.ev = "boom_clr" -> R([m EXCEPT !.clean = FALSE, !.boom = <<0, 0>>], {})

(***************************************************************************)
(* One monitor step.                                                        *)
(***************************************************************************)
Dispatch(P, m, st, st2, e) ==
  CASE e.ev = "sess_start"       -> OnSessStart(P, m, st, e)
    [] e.ev = "sess_end"         -> OnSessEnd(P, m, st, e)
    [] e.ev = "root_call"        -> OnRootCall(P, m, st, e)
    [] e.ev = "root_ret"         -> OnRootRet(P, m, st, e)
    [] e.ev \in {"root_panic", "bu_panic"} -> OnPanic(P, m, st, e)
    [] e.ev = "bu_begin"         -> OnBuBegin(P, m, st, e)
    [] e.ev = "bu_sched"         -> OnBuSched(P, m, st, e)
    [] e.ev = "bu_run"           -> OnBuRun(P, m, st, e)
    [] e.ev = "bu_ret"           -> OnBuRet(P, m, st, e)
    [] e.ev = "require_start"    -> OnRequireStart(P, m, st, e)
    [] e.ev = "require_end"      -> OnRequireEnd(P, m, st, e)
    [] e.ev = "rd_open"          -> OnRdOpen(P, m, st, e)
    [] e.ev = "read_start"       -> OnReadStart(P, m, st, e)
    [] e.ev = "stamp_reader"     -> OnStampReader(P, m, st, e)
    [] e.ev = "read_end"         -> OnReadEnd(P, m, st, e)
    [] e.ev = "rd_use"           -> OnRdUse(P, m, st, e)
    [] e.ev = "write_start"      -> OnWriteStart(P, m, st, e)
    [] e.ev = "wr_open"          -> OnWrOpen(P, m, st, e)
    [] e.ev = "res_set"          -> OnResSet(P, m, st, e)
    [] e.ev \in {"stamp_writer", "stamp"} -> OnStampWriter(P, m, st, e)
    [] e.ev = "write_end"        -> OnWriteEnd(P, m, st, e)
    [] e.ev = "check_task_start" -> OnCheckTaskStart(P, m, st, e)
    [] e.ev = "check_task_end"   -> OnCheckTaskEnd(P, m, st, e)
    [] e.ev = "check_res_start"  -> OnCheckResStart(P, m, st, e)
    [] e.ev = "check"            -> OnCheckCall(P, m, st, e)
    [] e.ev = "check_res_end"    -> OnCheckResEnd(P, m, st, e)
    [] e.ev = "exec_start"       -> OnExecStart(P, m, st, e)
    [] e.ev = "task_enter"       -> OnTaskEnter(P, m, st, e)
    [] e.ev = "op"               -> OnOp(P, m, st, e)
    [] e.ev = "task_exit"        -> OnTaskExit(P, m, st, e)
    [] e.ev = "exec_end"         -> OnExecEnd(P, m, st, st2, e)
    [] e.ev = "chk_read_start"   -> OnChkReadStart(P, m, st, e)
    [] e.ev = "chk_read_end"     -> OnChkReadEnd(P, m, st, e)
    [] e.ev = "chk_req_start"    -> OnChkReqStart(P, m, st, e)
    [] e.ev = "chk_req_end"      -> OnChkReqEnd(P, m, st, e)
    [] e.ev = "schedule"         -> OnSchedule(P, m, st, e)
    [] e.ev = "diverged"         -> R(m, {<<"C07", "unbounded_recursion">>})
    [] e.ev \in {"ext_set", "fault", "boom_arm", "boom_clr"} -> OnExt(P, m, st, e)
    [] OTHER -> R(m, {})

MonStep(P, m0, st, e) ==
  LET st2 == StoreStep(st, e)
      pre == PreCheck(P, m0, st, e)
      nst == Nest(pre.m, e)
      d == Dispatch(P, nst.m, st, st2, e)
      \* bookkeeping of the previous event
      m3 == [d.m EXCEPT !.lastEv = e.ev,
                        !.lastT = IF e.ev \in {"exec_start", "task_exit", "task_enter", "exec_end"} THEN e.t ELSE @,
                        !.lastO = IF e.ev \in {"task_exit", "exec_end"} THEN e.o ELSE @,
                        !.chkFresh = IF e.ev \in {"chk_read_end", "chk_req_end"} THEN @ ELSE FALSE,
                        !.builds = IF e.ev = "build_end" THEN @ + 1 ELSE @,
                        !.blog = IF e.ev \in RecordedKinds
                                 THEN Append(IF e.ev = "build_start" THEN <<>> ELSE @, [k |-> e.ev, x |-> Subj(e)]) ELSE @]
      allv == pre.v \cup nst.v \cup d.v
  IN [m |-> m3, v |-> {t \in allv : t[1] # ""}, k |-> {t \in d.k : t[1] # ""}, st |-> st2]
=============================================================================
