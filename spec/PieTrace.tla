------------------------------ MODULE PieTrace ------------------------------
(***************************************************************************)
(* Trace validation: one TLC state per event recorded from the             *)
(* implementation (harness/pie_run).  The abstract store is advanced by    *)
(* PieCore!StoreStep with the logged arguments, and every property monitor *)
(* of PieMon is evaluated on every event.  Several runs are concatenated   *)
(* in one file; each starts with a `reset` event carrying its scenario.    *)
(* Environment: TRACE (ndjson input), OUT (json result file).               *)
(***************************************************************************)
EXTENDS PieMon, Json, IOUtils

Rec == ndJsonDeserialize(IOEnv.TRACE)

VARIABLES l, st, m, viol, kfs, summ, run

vars == <<l, st, m, viol, kfs, summ, run>>

MkP(scn) ==
  LET nt == scn.nt
      keys == {<<t, pc, acc>> : t \in 1..nt, pc \in 0..scn.len, acc \in 0..(scn.na - 1)}
      ops == {scn.prog[k[1]][k[2] + 1][k[3] + 1] : k \in keys}
  IN [prog |-> [k \in keys |-> scn.prog[k[1]][k[2] + 1][k[3] + 1]],
      nt |-> nt, nr |-> scn.nr, nv |-> scn.nv, na |-> scn.na, fam |-> scn.family, id |-> scn.id,
      base |-> [t \in 1..nt |-> IF scn.ttype[t] \in {2, 3, 4}
                                THEN CHOOSE u \in 1..nt : scn.ttype[u] = 0 /\ scn.tnum[u] = scn.tnum[t]
                                ELSE t],
      exact |-> \A o \in ops : o.c \in {"", "eq"},
      rinst |-> [r \in 1..scn.nr |-> scn.rtype[r] \in {0, 1}],
      rown |-> [r \in 1..scn.nr |-> IF scn.rtype[r] = 3 THEN "C13" ELSE "C14"]]

NoP == [prog |-> <<>>, nt |-> 0, nr |-> 0, nv |-> 1, na |-> 1, fam |-> "", id |-> "", base |-> <<>>, exact |-> FALSE, rinst |-> <<>>, rown |-> <<>>]

\* the scenarios of all runs in the file, computed once (constant level)
ResetLines == SelectSeq([i \in 1..Len(Rec) |-> i], LAMBDA i : Rec[i].ev = "reset")
Ps == TLCEval([i \in DOMAIN ResetLines |-> TLCEval(MkP(Rec[ResetLines[i]].scn))])
P == IF run = 0 THEN NoP ELSE Ps[run]

Init ==
  /\ l = 1 /\ st = StoreInit(0, 0, <<>>) /\ m = MonInit(NoP)
  /\ viol = {} /\ kfs = {} /\ summ = <<>> /\ run = 0

Finish(v2, k2, s2) ==
  JsonSerialize(IOEnv.OUT, [events |-> Len(Rec), viol |-> v2, kf |-> k2, runs |-> s2])

Next ==
  /\ l <= Len(Rec)
  /\ l' = l + 1
  /\ LET e == Rec[l] IN
     IF e.ev = "reset" THEN
       /\ st' = StoreInit(e.scn.nt, e.scn.nr, e.scn.init)
       /\ m' = MonInit(Ps[run + 1])
       /\ run' = run + 1
       /\ UNCHANGED <<viol, kfs, summ>>
       /\ (l < Len(Rec) \/ Finish(viol, kfs, summ))
     ELSE IF e.ev = "end" THEN
       /\ summ' = Append(summ, [id |-> P.id, fam |-> P.fam, cnt |-> m.cnt])
       /\ UNCHANGED <<st, m, viol, kfs, run>>
       /\ (l < Len(Rec) \/ Finish(viol, kfs, summ'))
     ELSE
       LET r == MonStep(P, m, st, e) IN
       /\ m' = r.m
       /\ st' = r.st
       /\ viol' = viol \cup {<<run, l, P.id, t[1], t[2]>> : t \in r.v}
       /\ kfs' = kfs \cup {<<run, l, P.id, t[1], t[2]>> : t \in r.k}
       /\ UNCHANGED <<summ, run>>
       /\ (l < Len(Rec) \/ Finish(viol', kfs', summ))

Spec == Init /\ [][Next]_vars

\* the whole trace was consumed (one state per event plus the initial state)
Accepted == TLCGet("stats").diameter = Len(Rec) + 1
=============================================================================
