----------------------------- MODULE UnitModels -----------------------------
(***************************************************************************)
(* Small models of the self-contained parts of pie (C12 output checkers,   *)
(* C14 typed resource state and map resource, C13 file checkers, C15 key   *)
(* identity, C17 event queries).  Each model states the documented         *)
(* behaviour; UnitTrace.tla compares what the real code returned with it.  *)
(***************************************************************************)
EXTENDS PieCore

\* ---- C12: the documented consistency relation of the five built-in output checkers --------------------------------
\* outputs of type Result<i64, i64> are encoded as 2k (Ok(k)) and 2k+1 (Err(k))
IsOk(o) == o % 2 = 0
Rel(c, o1, o2) ==
  CASE c = "eq"    -> o1 = o2
    [] c = "okeq"  -> (IsOk(o1) /\ IsOk(o2) /\ o1 = o2) \/ (~IsOk(o1) /\ ~IsOk(o2))     \* equal Ok payloads, all errors equivalent
    [] c = "erreq" -> (~IsOk(o1) /\ ~IsOk(o2) /\ o1 = o2) \/ (IsOk(o1) /\ IsOk(o2))     \* equal Err payloads, all successes equivalent
    [] c = "res"   -> IsOk(o1) = IsOk(o2)
    [] c = "any"   -> TRUE
OutCheckers == {"eq", "okeq", "erreq", "res", "any"}

\* the transcription of the code used by the build-level specification (PieCore!OStamp / OInc) decides exactly Rel
C12_Model == \A c \in OutCheckers, o1 \in 0..7, o2 \in 0..7 : OInc(c, o1, OStamp(c, o2)) = ~Rel(c, o1, o2)
C12_Reflexive == \A c \in OutCheckers, o \in 0..7 : ~OInc(c, o, OStamp(c, o))

\* ---- C14: typed resource state (one slot per resource type) and the map resource on top of it -------------------------
\* slot = [ty |-> "none" | "i" | "t" | "ma" | "mb", val |-> scalar or function key -> value]
ResTypes == {"KA", "KB", "VR"}
SlotInit == [r \in ResTypes |-> [ty |-> "none", val |-> 0]]
IsMapTy(s) == s \in {"ma", "mb"}
MapTyOf(r) == IF r = "KA" THEN "ma" ELSE "mb"
EmptyMap == <<>>

RECURSIVE MapShowR(_, _)
MapShowR(f, ks) == IF ks = {} THEN <<>>
                   ELSE LET k == CHOOSE x \in ks : \A y \in ks : x <= y IN <<<<k, f[k]>>>> \o MapShowR(f, ks \ {k})
MapShow(f) == MapShowR(f, DOMAIN f)
ShowVal(slot) == IF IsMapTy(slot.ty) THEN MapShow(slot.val) ELSE slot.val
DefaultOf(s) == IF IsMapTy(s) THEN EmptyMap ELSE 0
MkVal(s, v) == IF IsMapTy(s) THEN (1 :> v) ELSE v
AssignVal(s, old, v) == IF IsMapTy(s) THEN (1 :> v) @@ old ELSE v
MGet(f, k) == IF k \in DOMAIN f THEN f[k] ELSE -1
MDel(f, k) == [x \in (DOMAIN f) \ {k} |-> f[x]]

\* result and next slots of a typed state access (ResourceState<R> methods)
TypedOp(slots, e) ==
  LET slot == slots[e.r]
      S == e.s
      ensured == IF slot.ty = S THEN slot ELSE [ty |-> S, val |-> DefaultOf(S)]
  IN CASE e.op = "sget" -> [res |-> IF slot.ty = S THEN ShowVal(slot) ELSE -1, slots |-> slots]
       [] e.op \in {"sset", "sbset"} -> [res |-> 0, slots |-> [slots EXCEPT ![e.r] = [ty |-> S, val |-> MkVal(S, e.v)]]]
       [] e.op = "sdef" -> [res |-> ShowVal(ensured), slots |-> [slots EXCEPT ![e.r] = ensured]]
       [] e.op = "sdefmut" -> [res |-> ShowVal(ensured),
                               slots |-> [slots EXCEPT ![e.r] = [ty |-> S, val |-> AssignVal(S, ensured.val, e.v)]]]
       [] e.op = "smut" -> IF slot.ty = S
                           THEN [res |-> 1, slots |-> [slots EXCEPT ![e.r] = [ty |-> S, val |-> AssignVal(S, slot.val, e.v)]]]
                           ELSE [res |-> 0, slots |-> slots]
       [] e.op = "sbox" -> [res |-> <<slot.ty, slot.ty>>, slots |-> slots]

\* result and next slots of an access through the map resource (Resource for MapKey, MapWriter, MapEqualsChecker)
MapOp(slots, e) ==
  LET mt == MapTyOf(e.r)
      slot == slots[e.r]
      f == IF slot.ty = mt THEN slot.val ELSE EmptyMap      \* a slot of another type is replaced by an empty map
      k == e.k
      With(g) == [slots EXCEPT ![e.r] = [ty |-> mt, val |-> g]]
      cur == MGet(f, k)
  IN CASE e.op \in {"mread", "mwget", "mstamp_path"} -> [res |-> cur, slots |-> With(f)]
       [] e.op = "minsert" -> [res |-> cur, slots |-> With((k :> e.v) @@ f)]
       [] e.op = "mremove" -> [res |-> cur, slots |-> With(MDel(f, k))]
       [] e.op = "mentry_or" -> IF cur # -1 THEN [res |-> cur, slots |-> With(f)] ELSE [res |-> e.v, slots |-> With((k :> e.v) @@ f)]
       [] e.op = "mgetmut" -> IF cur # -1 THEN [res |-> cur, slots |-> With((k :> e.v) @@ f)] ELSE [res |-> -1, slots |-> With(f)]
       [] e.op = "gmap" -> [res |-> MapShow(f), slots |-> With(f)]
       [] e.op = "gmapmut" -> [res |-> 0, slots |-> With((k :> e.v) @@ f)]
       [] e.op = "mstamp_reader" -> [res |-> <<cur, cur>>, slots |-> With(f)]
       [] e.op = "mstamp_writer" -> IF e.v >= 0 THEN [res |-> e.v, slots |-> With((k :> e.v) @@ f)] ELSE [res |-> cur, slots |-> With(f)]
       [] e.op = "mcheck" -> [res |-> cur # e.s, slots |-> With(f)]

\* ---- C13: one filesystem path and the three file checkers ----------------------------------------------------------------
\* fs = [kind |-> "absent" | "file" | "dir", k, size (content identity of a file), names (listing of a directory), mt]
FsInit == [kind |-> "absent", k |-> 0, size |-> 0, names |-> {}, mt |-> 0]
FsStep(fs, e) ==
  CASE e.act = "write" -> [kind |-> "file", k |-> e.k, size |-> e.size, names |-> {}, mt |-> e.mt]
    [] e.act = "writer" -> IF e.removed THEN FsInit ELSE [kind |-> "file", k |-> e.k, size |-> e.size, names |-> {}, mt |-> e.mt]
    [] e.act = "touch" -> [fs EXCEPT !.mt = e.mt]
    [] e.act = "remove" -> FsInit
    [] e.act = "mkdir" -> [kind |-> "dir", k |-> 0, size |-> 0, names |-> {}, mt |-> e.mt]
    [] e.act = "add_entry" -> [fs EXCEPT !.names = @ \cup {e.name}, !.mt = e.mt]
    [] e.act = "remove_entry" -> [fs EXCEPT !.names = @ \ {e.name}, !.mt = e.mt]
    [] OTHER -> fs
FsChanges(e) == e.act \notin {"none", "open_write_dir"}

\* what each checker observes
ExistsAbs(fs) == IF fs.kind = "absent" THEN 0 ELSE 1
ModifiedAbs(fs) == IF fs.kind = "absent" THEN -1 ELSE fs.mt
HashAbs(fs) == CASE fs.kind = "absent" -> <<"n">> [] fs.kind = "file" -> <<"f", fs.k, fs.size>> [] OTHER -> <<"d", fs.names>>

\* the observed aspect differs (only the cases the property claims)
ExistsDiffers(a, b) == ExistsAbs(a) # ExistsAbs(b)
ModifiedDiffers(a, b) == ModifiedAbs(a) # ModifiedAbs(b)
HashDiffers(a, b) ==
  \/ (a.kind = "absent") # (b.kind = "absent")
  \/ a.kind = "file" /\ b.kind = "file" /\ <<a.k, a.size>> # <<b.k, b.size>>
  \/ a.kind = "dir" /\ b.kind = "dir" /\ a.names # b.names
=============================================================================
