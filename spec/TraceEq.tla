------------------------------- MODULE TraceEq -------------------------------
(***************************************************************************)
(* C16: two replays of the same histories on fresh Pie instances (fresh    *)
(* hash seeds; same or different process) must produce the identical event *)
(* stream: every tracker event, checker call, resource access, output,     *)
(* store dump (iteration orders and topological ranks included).           *)
(* Environment: TRACE, TRACE2, OUT.                                         *)
(***************************************************************************)
EXTENDS Integers, Sequences, TLC, Json, IOUtils

RecA == ndJsonDeserialize(IOEnv.TRACE)
RecB == ndJsonDeserialize(IOEnv.TRACE2)

VARIABLES l, diffs, runs
vars == <<l, diffs, runs>>

Init == l = 1 /\ diffs = {} /\ runs = 0

Finish(d2, r2) == JsonSerialize(IOEnv.OUT, [eventsA |-> Len(RecA), eventsB |-> Len(RecB), diffs |-> d2, runs |-> r2])

\* replays of a history are compared event by event; the first difference inside a run is recorded
Next ==
  /\ l <= Len(RecA)
  /\ l' = l + 1
  /\ LET same == l <= Len(RecB) /\ RecA[l] = RecB[l]
         isReset == RecA[l].ev = "reset"
     IN /\ runs' = IF isReset THEN runs + 1 ELSE runs
        /\ diffs' = IF same \/ \E d \in diffs : d[1] = runs' THEN diffs ELSE diffs \cup {<<runs', l>>}
        /\ (l < Len(RecA) \/ Finish(diffs', runs'))

Spec == Init /\ [][Next]_vars
Accepted == TLCGet("stats").diameter = Len(RecA) + 1 /\ Len(RecA) = Len(RecB)
=============================================================================
