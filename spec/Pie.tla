--------------------------------- MODULE Pie ---------------------------------
(***************************************************************************)
(* Operational specification of PIE (pie/src/context/{mod,top_down,        *)
(* bottom_up}.rs, pie/src/store.rs, pie/src/pie.rs) as a transition system *)
(* over the event alphabet of the conformance harness.                     *)
(*                                                                         *)
(* Every action computes the list of events the code emits in that         *)
(* critical section; the abstract store is advanced by folding             *)
(* PieCore!StoreStep over that list and every property monitor of PieMon   *)
(* consumes the same events.  The invariant NoViolation therefore says:    *)
(* "no behaviour of the design, for any program, resource state and        *)
(* history inside the configured bounds, violates a listed property".      *)
(*                                                                         *)
(* Programs are not enumerated up front: prog is a partial function from   *)
(* <<task, pc, acc>> to operations that is extended, by non-deterministic  *)
(* choice among the operations the configured family permits on the        *)
(* current path, exactly when the interpreter reaches an undefined entry.  *)
(***************************************************************************)
EXTENDS PieMon, Json

CONSTANTS
  NT, NR, NV, NA, LEN,        \* tasks 1..NT, resources 1..NR, values 0..NV-1, accumulator 0..NA-1, rows 0..LEN
  Family,                     \* "WF" | "INJ" | "ROLE" | "FAULT" | "ABORT" | "TWOCHK"
  Writer,                     \* <<w_1, .., w_NR>>: static writer of each resource (0 = source); WF families
  RChks, OChks, WChks, Fs,    \* checker ids / value functions the lazily generated programs may use
  MaxSessions, MaxChanges, MaxRoots, MaxBU,
  CheckLeftoverOfAborted,     \* TRUE: check_task validates the leftover dependencies of a task without output (defect F2)
  EmitScenarios,              \* TRUE: print the scenario (program table + history) of every finished behaviour as JSON
  MidSession,                 \* TRUE: resources may also change while a session is open (between two API calls)
  Retry,                      \* TRUE: a session in which a top-down build aborted is kept and may start further top-down builds
  Conform                     \* TRUE: used by PieConform.tla: programs and environment come from a recorded scenario, so the
                              \* restrictions that only shape the explored space (Permitted, bounds, reporting discipline) are lifted

VARIABLES
  st,      \* abstract store (PieCore)
  m,       \* property monitors (PieMon)
  ctl,     \* control: call stack, session-consistent set, error count, returned value, session mode
  prog,    \* lazily generated program table
  env,     \* environment bookkeeping (bounds, faults, armed crash point, injected entry)
  viol,    \* violations raised by the last step (invariant: empty)
  kfs,     \* known-finding predicates that fired in the last step
  hist,    \* history of environment steps (scenario emission; not part of the VIEW)
  out      \* the events emitted by the last step (conformance checking; not part of the VIEW)

vars == <<st, m, ctl, prog, env, viol, kfs, hist, out>>
view == <<st, m, ctl, prog, env, viol, kfs>>

TaskIds == 1..NT
ResIds == 1..NR

P(pr) == [prog |-> pr, nt |-> NT, nr |-> NR, nv |-> NV, na |-> NA, fam |-> Family, id |-> "model",
          base |-> [t \in TaskIds |-> t], rinst |-> [r \in ResIds |-> TRUE], rown |-> [r \in ResIds |-> "INTEGRITY"],
          exact |-> RChks \subseteq {"eq"} /\ OChks \subseteq {"eq"} /\ WChks \subseteq {"eq"}]

(***************************************************************************)
(* Folding a list of events over store and monitors.                        *)
(***************************************************************************)
RECURSIVE Fold(_, _, _, _, _, _)
Fold(PP, mm, ss, evs, v, k) ==
  IF evs = <<>> THEN [m |-> mm, st |-> ss, v |-> v, k |-> k]
  ELSE LET r == MonStep(PP, mm, ss, Head(evs))
       IN Fold(PP, r.m, r.st, Tail(evs), v \cup r.v, k \cup r.k)

\* counters are evidence for trace validation only; keeping them constant lets equal situations merge
Norm(mm) == [mm EXCEPT !.cnt = [p \in DOMAIN mm.cnt |-> 0], !.sessN = IF @ > 2 THEN 2 ELSE @]

Emit(evs, pr) ==
  LET r == Fold(P(pr), m, st, evs, {}, {})
  IN /\ st' = r.st
     /\ m' = Norm(r.m)
     /\ viol' = r.v
     /\ kfs' = r.k
     /\ out' = evs

Quiet == UNCHANGED <<st, m, viol, kfs>> /\ out' = <<>>

Ev(name) == [ev |-> name]

RECURSIVE SetToSeqAny(_)
SetToSeqAny(S) == IF S = {} THEN <<>> ELSE LET x == CHOOSE x \in S : TRUE IN <<x>> \o SetToSeqAny(S \ {x})

RECURSIVE SetToSeq(_)
SetToSeq(S) == IF S = {} THEN <<>>
               ELSE LET x == CHOOSE x \in S : \A y \in S : x <= y IN <<x>> \o SetToSeq(S \ {x})

(***************************************************************************)
(* Control state.                                                           *)
(***************************************************************************)
Frame(k, t) == [k |-> k, t |-> t, c |-> "", u |-> 0, i |-> 0, ds |-> <<>>, pc |-> 0, acc |-> 0, bu |-> FALSE, wait |-> 0]
Top == Last(ctl.stack)
Below == ctl.stack[Len(ctl.stack) - 1]
Pop(s) == Front(s)
ReplaceTop(s, f) == Append(Front(s), f)

Init ==
  /\ st = StoreInit(NT, NR, [r \in ResIds |-> ABSENT])
  /\ m = MonInit(P(<<>>))
  /\ ctl = [stack |-> <<>>, cons |-> {}, errs |-> 0, ret |-> FALSE, retv |-> NONE, mode |-> "init", todo |-> <<>>,
            roots |-> 0, inBU |-> FALSE]
  /\ prog = <<>>
  /\ env = [sessions |-> 0, changes |-> 0, bus |-> 0, fault |-> {}, boom |-> <<0, 0>>, injKey |-> <<>>, dirty |-> {},
            aborted |-> FALSE]
  /\ viol = {} /\ kfs = {} /\ hist = <<>> /\ out = <<>>

(***************************************************************************)
(* Environment actions (between API calls).                                 *)
(***************************************************************************)
\* the initial content of the resources is part of the explored space
ChooseInit ==
  /\ ctl.mode = "init"
  /\ \E init \in [ResIds -> (-1)..(NV - 1)] :
       /\ \A r \in ResIds : Family # "ROLE" /\ Writer[r] # 0 => init[r] = ABSENT
       /\ st' = [st EXCEPT !.res = init]
       /\ hist' = <<[s |-> "init", v |-> init]>>
  /\ ctl' = [ctl EXCEPT !.mode = "idle"]
  /\ out' = <<>>
  /\ UNCHANGED <<m, prog, env, viol, kfs>>

ExtSet(r, v) ==
  /\ \/ ctl.mode = "idle"
     \/ (MidSession \/ Conform) /\ ctl.mode = "sess" /\ ctl.stack = <<>> /\ ctl.roots > 0
  /\ Conform \/ (env.changes < MaxChanges /\ st.res[r] # v)
  /\ Emit(<<[ev |-> "ext_set", r |-> r, v |-> v]>>, prog)
  /\ env' = [env EXCEPT !.changes = @ + 1, !.dirty = @ \cup {r}]
  /\ hist' = Append(hist, [s |-> "set", r |-> r, v |-> v])
  /\ UNCHANGED <<ctl, prog>>

SetFault(r, on) ==
  /\ (Conform \/ (Family = "FAULT" /\ env.changes < MaxChanges /\ (r \in env.fault) # on)) /\ ctl.mode = "idle"
  /\ Emit(<<[ev |-> "fault", r |-> r, on |-> on]>>, prog)
  /\ env' = [env EXCEPT !.changes = @ + 1, !.fault = IF on THEN @ \cup {r} ELSE @ \ {r}]
  /\ hist' = Append(hist, [s |-> "fault", r |-> r, on |-> on])
  /\ UNCHANGED <<ctl, prog>>

BoomArm(t, pc) ==
  /\ (Conform \/ (Family = "ABORT" /\ env.boom = <<0, 0>> /\ ~env.aborted)) /\ ctl.mode = "idle"
  /\ Emit(<<[ev |-> "boom_arm", t |-> t, pc |-> pc]>>, prog)
  /\ env' = [env EXCEPT !.boom = <<t, pc>>]
  /\ hist' = Append(hist, [s |-> "boom", t |-> t, pc |-> pc])
  /\ UNCHANGED <<ctl, prog>>

BoomClr ==
  /\ (Conform \/ (Family = "ABORT" /\ env.boom # <<0, 0>>)) /\ ctl.mode = "idle"
  /\ Emit(<<Ev("boom_clr")>>, prog)
  /\ env' = [env EXCEPT !.boom = <<0, 0>>]
  /\ hist' = Append(hist, [s |-> "boom_clr"])
  /\ UNCHANGED <<ctl, prog>>

StartSession(probe) ==
  /\ ctl.mode = "idle" /\ (Conform \/ env.sessions < MaxSessions)
  /\ (probe /\ ~Conform) => st.known # <<>>
  /\ Emit(<<[ev |-> "sess_start", probe |-> probe]>>, prog)
  /\ ctl' = [ctl EXCEPT !.mode = "sess", !.cons = {}, !.errs = 0, !.todo = IF probe THEN st.known ELSE <<>>,
                        !.roots = 0, !.inBU = FALSE, !.stack = <<>>, !.ret = FALSE]
  /\ env' = [env EXCEPT !.sessions = @ + 1]
  /\ hist' = Append(hist, IF probe THEN [s |-> "probe", rev |-> FALSE] ELSE [s |-> "session", acts |-> <<>>])
  /\ UNCHANGED prog

DumpOf == [tasks |-> [i \in 1..Len(st.known) |->
                        [t |-> st.known[i], o |-> st.out[st.known[i]], deps |-> st.deps[st.known[i]]]]]

\* the explored program table and history as a scenario for the conformance harness (spec -> implementation replay)
ScenarioRec ==
  [nt |-> NT, nr |-> NR, nv |-> NV, na |-> NA, len |-> LEN, family |-> Family, writer |-> Writer,
   prog |-> SetToSeqAny({[t |-> k[1], pc |-> k[2], acc |-> k[3], op |-> prog[k]] : k \in DOMAIN prog}),
   hist |-> hist]

EndSession ==
  /\ ctl.mode \in {"sess", "aborted"} /\ ctl.stack = <<>>
  /\ (EmitScenarios /\ env.sessions = MaxSessions) => PrintT(ToJson(ScenarioRec))
  /\ (ctl.mode = "sess" /\ ~Conform) => (ctl.todo = <<>> /\ (ctl.roots > 0 \/ ctl.inBU))
  /\ Emit(<<[ev |-> "sess_end", errs |-> ctl.errs, res |-> st.res, dump |-> DumpOf, trk_same |-> TRUE, ranks |-> RankSeq(st)]>>, prog)
  /\ ctl' = [ctl EXCEPT !.mode = "idle", !.cons = {}]
  /\ UNCHANGED <<prog, env, hist>>

AddAct(a) == IF hist # <<>> /\ Last(hist).s = "session"
             THEN Append(Front(hist), [Last(hist) EXCEPT !.acts = Append(@, a)]) ELSE hist

RootReq(t) ==
  \* (a caller that caught the panic of an aborted top-down build may keep the session: the session-local consistent
  \* set and error list survive, the executing-task marker is reset by Session::require)
  /\ (ctl.mode = "sess" \/ (ctl.mode = "aborted" /\ (Conform \/ Retry) /\ ~ctl.inBU)) /\ ctl.stack = <<>>
  /\ Conform \/ (IF ctl.todo # <<>> THEN t = Head(ctl.todo) ELSE (m.probe = FALSE /\ ctl.roots < MaxRoots))
  /\ Emit(<<[ev |-> "root_call", t |-> t], Ev("build_start"), [ev |-> "require_start", t |-> t, c |-> "any"]>>, prog)
  /\ ctl' = [ctl EXCEPT !.stack = <<Frame("root", t), Frame("mc", t)>>, !.roots = @ + 1,
                        !.todo = IF @ = <<>> THEN @ ELSE Tail(@)]
  /\ hist' = AddAct([a |-> "req", t |-> t])
  /\ UNCHANGED <<prog, env>>

(***************************************************************************)
(* Shared context: dependency checks as event lists.                        *)
(***************************************************************************)
ResCheckEvents(startEv, endEv, subj, d) ==
  \* subj: the record fields identifying the subject of the start/end events
  LET mres == ModelRes(m, d.c, st.res[d.x], d.s, d.x)
  IN <<subj @@ [ev |-> startEv, c |-> d.c, s |-> d.s],
       [ev |-> "check", c |-> d.c, r |-> d.x, s |-> d.s, res |-> mres],
       subj @@ [ev |-> endEv, c |-> d.c, s |-> d.s, res |-> mres]>>

ResCheckResult(d) == ModelRes(m, d.c, st.res[d.x], d.s, d.x)

\* bottom-up: try_schedule_task_by_resource_dependency for each (task, dependency) in incoming order
RECURSIVE SchedByResLoop(_, _, _)
SchedByResLoop(r, qs, kinds) ==
  IF qs = <<>> THEN <<>>
  ELSE LET q == Head(qs)
           d == DepOnRes(st, q, r)
       IN IF d.k \notin kinds THEN SchedByResLoop(r, Tail(qs), kinds)
          ELSE ResCheckEvents("chk_read_start", "chk_read_end", [t |-> q], d)
               \o (IF ResCheckResult(d) # "ok" THEN <<[ev |-> "schedule", t |-> q]>> ELSE <<>>)
               \o SchedByResLoop(r, Tail(qs), kinds)

SchedByRes(r, kinds) ==
  <<[ev |-> "sched_by_res_start", r |-> r]>> \o SchedByResLoop(r, st.incr[r], kinds) \o <<[ev |-> "sched_by_res_end", r |-> r]>>

ErrCount(evs) == Cardinality({i \in DOMAIN evs : evs[i].ev \in {"chk_read_end", "check_res_end"} /\ evs[i].res = "err"})

(***************************************************************************)
(* Top-down context.                                                        *)
(***************************************************************************)
StartExecFrames(t, bu) == [Frame("ex", t) EXCEPT !.bu = bu]
StartExecEvents(t) == <<[ev |-> "exec_start", t |-> t], [ev |-> "task_enter", t |-> t]>>

\* make_task_consistent (top_down.rs:80)
McStep ==
  /\ ctl.stack # <<>> /\ Top.k = "mc" /\ ~ctl.ret
  /\ LET t == Top.t IN
     IF t \in ctl.cons THEN
       /\ ctl' = [ctl EXCEPT !.stack = Pop(@), !.ret = TRUE, !.retv = st.out[t]]
       /\ Quiet
     ELSE IF st.out[t] = NONE /\ ~CheckLeftoverOfAborted THEN
       /\ Emit(StartExecEvents(t), prog)
       /\ ctl' = [ctl EXCEPT !.stack = ReplaceTop(@, StartExecFrames(t, FALSE))]
     ELSE
       /\ ctl' = [ctl EXCEPT !.stack = ReplaceTop(@, [Frame("chk", t) EXCEPT !.ds = st.deps[t], !.i = 1])]
       /\ Quiet
  /\ UNCHANGED <<prog, env, hist>>

Abort(kind, evs, pr, envBase) ==
  \* the panic unwinds through the API call; the session is dropped afterwards
  /\ Emit(evs \o <<IF ctl.inBU THEN [ev |-> "bu_panic", kind |-> kind] ELSE [ev |-> "root_panic", t |-> ctl.stack[1].t, kind |-> kind]>>, pr)
  /\ ctl' = [ctl EXCEPT !.stack = <<>>, !.mode = "aborted", !.ret = FALSE, !.todo = <<>>]
  /\ env' = [envBase EXCEPT !.aborted = TRUE]

\* check_task (top_down.rs:116): one recorded dependency per step
ChkStep ==
  /\ ctl.stack # <<>> /\ Top.k = "chk" /\ ~ctl.ret
  /\ LET t == Top.t
         i == Top.i
     IN IF i > Len(Top.ds) THEN
          IF st.out[t] # NONE THEN
            /\ ctl' = [ctl EXCEPT !.stack = Pop(@), !.ret = TRUE, !.retv = st.out[t], !.cons = @ \cup {t}]
            /\ Quiet /\ UNCHANGED env
          ELSE
            /\ Emit(StartExecEvents(t), prog)
            /\ ctl' = [ctl EXCEPT !.stack = ReplaceTop(@, StartExecFrames(t, FALSE))]
            /\ UNCHANGED env
        ELSE LET d == Top.ds[i] IN
          CASE d.k = "rsv" -> Abort("bug", <<>>, prog, env)
            [] d.k \in {"rd", "wr"} ->
                 LET evs == ResCheckEvents("check_res_start", "check_res_end", [r |-> d.x], d)
                     res == ResCheckResult(d)
                 IN IF res = "ok" THEN
                      /\ Emit(evs, prog)
                      /\ ctl' = [ctl EXCEPT !.stack = ReplaceTop(@, [Top EXCEPT !.i = i + 1])]
                      /\ UNCHANGED env
                    ELSE
                      /\ Emit(evs \o StartExecEvents(t), prog)
                      /\ ctl' = [ctl EXCEPT !.stack = ReplaceTop(@, StartExecFrames(t, FALSE)),
                                            !.errs = IF res = "err" THEN @ + 1 ELSE @]
                      /\ UNCHANGED env
            [] d.k = "rq" ->
                 /\ Emit(<<[ev |-> "check_task_start", t |-> d.x, c |-> d.c, s |-> d.s]>>, prog)
                 /\ ctl' = [ctl EXCEPT !.stack = Append(ReplaceTop(@, [Top EXCEPT !.k = "chkw"]), Frame("mc", d.x))]
                 /\ UNCHANGED env
  /\ UNCHANGED <<prog, hist>>

\* TaskDependency::is_consistent after the recursive make_task_consistent returned
ChkReturn ==
  /\ ctl.stack # <<>> /\ Top.k = "chkw" /\ ctl.ret
  /\ LET t == Top.t
         d == Top.ds[Top.i]
         inc == OInc(d.c, ctl.retv, d.s)
         e == [ev |-> "check_task_end", t |-> d.x, c |-> d.c, s |-> d.s, res |-> IF inc THEN "inc" ELSE "ok"]
     IN IF inc THEN
          /\ Emit(<<e>> \o StartExecEvents(t), prog)
          /\ ctl' = [ctl EXCEPT !.stack = ReplaceTop(@, StartExecFrames(t, FALSE)), !.ret = FALSE]
        ELSE
          /\ Emit(<<e>>, prog)
          /\ ctl' = [ctl EXCEPT !.stack = ReplaceTop(@, [Top EXCEPT !.k = "chk", !.i = @ + 1]), !.ret = FALSE]
  /\ UNCHANGED <<prog, env, hist>>

RootReturn ==
  /\ ctl.stack # <<>> /\ Top.k = "root" /\ ctl.ret
  /\ LET t == Top.t IN
     Emit(<<[ev |-> "require_end", t |-> t, c |-> "any", s |-> 0, o |-> ctl.retv], Ev("build_end"),
            [ev |-> "root_ret", t |-> t, o |-> ctl.retv]>>, prog)
  /\ ctl' = [ctl EXCEPT !.stack = <<>>, !.ret = FALSE]
  /\ UNCHANGED <<prog, env, hist>>

(***************************************************************************)
(* Lazy program generation: the operations a family permits at an entry,   *)
(* given what the current execution has performed so far (m.perf[t]).      *)
(***************************************************************************)
AllOps ==
  {[k |-> "rd", x |-> r, c |-> c, f |-> 0] : r \in ResIds, c \in RChks}
  \cup {[k |-> "rq", x |-> u, c |-> c, f |-> 0] : u \in TaskIds, c \in OChks}
  \cup {[k |-> kk, x |-> r, c |-> c, f |-> f] : kk \in {"wr", "wt"}, r \in ResIds, c \in WChks, f \in Fs \cup {-1}}
  \cup {[k |-> "ret", x |-> 0, c |-> "", f |-> f] : f \in Fs}

PerfOf(t) == m.perf[t]
Did(t, kinds, x) == \E i \in DOMAIN PerfOf(t) : PerfOf(t)[i].k \in kinds /\ PerfOf(t)[i].x = x
DidWith(t, kinds, x, c) == \A i \in DOMAIN PerfOf(t) : (PerfOf(t)[i].k \in kinds /\ PerfOf(t)[i].x = x) => PerfOf(t)[i].c = c

\* rules common to all families: no self-inflicted diagnoses, one checker per target per execution
\* (family TWOCHK lifts the one-checker rule: recorded finding K2)
Sane(t, op) ==
  CASE op.k = "rd" -> ~Did(t, {"wr"}, op.x) /\ (Family = "TWOCHK" \/ DidWith(t, {"rd"}, op.x, op.c))
    [] op.k = "rq" -> op.x # t /\ (Family = "TWOCHK" \/ DidWith(t, {"rq"}, op.x, op.c))
    [] op.k \in {"wr", "wt"} -> ~Did(t, {"wr", "rd"}, op.x)
    [] OTHER -> TRUE

WellFormed(t, op) ==
  CASE op.k = "rd" -> Writer[op.x] # t /\ (Writer[op.x] = 0 \/ Did(t, {"rq"}, Writer[op.x]))
    [] op.k = "rq" -> op.x > t
    [] op.k \in {"wr", "wt"} -> Writer[op.x] = t
    [] OTHER -> TRUE

Permitted(t, pc, acc, op) ==
  /\ (pc = LEN => op.k = "ret")
  /\ Sane(t, op)
  /\ \/ Family = "ROLE"
     \/ WellFormed(t, op)
     \/ Family = "INJ" /\ env.injKey \in {<<>>, <<t, pc, acc>>}

\* symmetry reduction by construction: a return function is only distinguished when it can be observed
OpChoices(t, pc, acc) == {op \in AllOps : Permitted(t, pc, acc, op)}

(***************************************************************************)
(* Task execution: one operation of the interpreted program per step.       *)
(***************************************************************************)
ExecStep ==
  /\ ctl.stack # <<>> /\ Top.k = "ex" /\ ~ctl.ret
  /\ LET t == Top.t
         pc == Top.pc
         acc == Top.acc
         key == <<t, pc, acc>>
         evOp == [ev |-> "op", t |-> t, pc |-> pc, acc |-> acc]
     IN
     \E op \in (IF key \in DOMAIN prog THEN {prog[key]} ELSE OpChoices(t, pc, acc)) :
       /\ Conform \/ Permitted(t, pc, acc, op)   \* an existing entry reached on a path where it is not permitted: behaviour cut
       /\ prog' = IF key \in DOMAIN prog THEN prog ELSE (key :> op) @@ prog
       /\ LET injected == Family = "INJ" /\ ~WellFormed(t, op)
              envI == IF injected THEN [env EXCEPT !.injKey = key] ELSE env
          IN
          IF env.boom = <<t, pc>> THEN Abort("boom", <<evOp>>, prog', envI)
          ELSE
          CASE op.k = "ret" ->
                 LET o == FRet(op.f, acc, NV) IN
                 /\ Emit(<<evOp, [ev |-> "task_exit", t |-> t, o |-> o], [ev |-> "exec_end", t |-> t, o |-> o]>>, prog')
                 /\ ctl' = [ctl EXCEPT !.stack = Pop(@), !.ret = TRUE, !.retv = o,
                                       !.cons = IF Top.bu THEN @ ELSE @ \cup {t}]
                 /\ env' = envI
            [] op.k = "rd" ->
                 LET r == op.x
                     v == st.res[r]
                     w == WriterOf(st, r)
                     pre == <<evOp, [ev |-> "rd_open", r |-> r, id |-> 1, v |-> v], [ev |-> "read_start", r |-> r, c |-> op.c]>>
                     s == RStamp(op.c, v)
                 IN IF w # 0 /\ ~Reach(st, t, w) THEN Abort("hidden", pre, prog', envI)
                    ELSE /\ Emit(pre \o <<[ev |-> "stamp_reader", c |-> op.c, r |-> r, id |-> 1, s |-> s],
                                          [ev |-> "read_end", r |-> r, c |-> op.c, s |-> s],
                                          [ev |-> "rd_use", id |-> 1]>>, prog')
                         /\ ctl' = [ctl EXCEPT !.stack = ReplaceTop(@, [Top EXCEPT !.pc = pc + 1, !.acc = Mix(acc, RObs(op.c, v), NA)])]
                         /\ env' = envI
            [] op.k \in {"wr", "wt"} ->
                 LET r == op.x
                     v == F(op.f, acc, NV)
                     w == WriterOf(st, r)
                     bad == IF w # 0 THEN "overlap"
                            ELSE IF \E q \in Range(ReadersOf(st, r)) : ~Reach(st, q, t) THEN "hidden" ELSE ""
                     ws == [ev |-> "write_start", r |-> r, c |-> op.c]
                     doWrite == <<[ev |-> "wr_open", r |-> r, id |-> 1], [ev |-> "res_set", r |-> r, v |-> v, id |-> 1]>>
                     s == RStamp(op.c, v)
                     we == [ev |-> "write_end", r |-> r, c |-> op.c, s |-> s]
                 IN IF op.k = "wr" THEN
                      IF bad # "" THEN Abort(bad, <<evOp, ws>>, prog', envI)
                      ELSE /\ Emit(<<evOp, ws>> \o doWrite \o <<[ev |-> "stamp_writer", c |-> op.c, r |-> r, id |-> 1, s |-> s], we>>, prog')
                           /\ ctl' = [ctl EXCEPT !.stack = ReplaceTop(@, [Top EXCEPT !.pc = pc + 1])]
                           /\ env' = envI
                    ELSE
                      IF bad # "" THEN Abort(bad, <<evOp>> \o doWrite \o <<ws>>, prog', envI)
                      ELSE /\ Emit(<<evOp>> \o doWrite \o <<ws, [ev |-> "stamp", c |-> op.c, r |-> r, s |-> s], we>>, prog')
                           /\ ctl' = [ctl EXCEPT !.stack = ReplaceTop(@, [Top EXCEPT !.pc = pc + 1])]
                           /\ env' = envI
            [] op.k = "rq" ->
                 LET u == op.x
                     rs == [ev |-> "require_start", t |-> u, c |-> op.c]
                 IN IF u = t \/ Reach(st, u, t) THEN Abort("cyclic", <<evOp, rs>>, prog', envI)
                    ELSE /\ Emit(<<evOp, rs>>, prog')
                         /\ ctl' = [ctl EXCEPT !.stack =
                                      Append(ReplaceTop(@, [Top EXCEPT !.k = "rqw", !.c = op.c, !.u = u]),
                                             Frame(IF ctl.inBU THEN "mcb" ELSE "mc", u))]
                         /\ env' = envI
  /\ UNCHANGED hist

\* Context::require after make_task_consistent returned (top_down.rs:37-44, bottom_up.rs:250-262)
RequireReturn ==
  /\ ctl.stack # <<>> /\ Top.k = "rqw" /\ ctl.ret
  /\ LET o == ctl.retv
         s == OStamp(Top.c, o)
     IN /\ Emit(<<[ev |-> "require_end", t |-> Top.u, c |-> Top.c, s |-> s, o |-> o]>>, prog)
        /\ ctl' = [ctl EXCEPT !.stack = ReplaceTop(@, [Top EXCEPT !.k = "ex", !.pc = @ + 1, !.acc = Mix(@, OObs(Top.c, o), NA)]),
                              !.ret = FALSE,
                              !.cons = IF ctl.inBU THEN @ \cup {Top.u} ELSE @]
  /\ UNCHANGED <<prog, env, hist>>

(***************************************************************************)
(* Bottom-up context.                                                       *)
(***************************************************************************)
BuBegin ==
  /\ ctl.mode = "sess" /\ ctl.stack = <<>> /\ ~ctl.inBU
  /\ Conform \/ (ctl.roots = 0 /\ ~m.probe /\ env.bus < MaxBU /\ st.known # <<>>)
  /\ Emit(<<Ev("bu_begin")>>, prog)
  /\ ctl' = [ctl EXCEPT !.inBU = TRUE, !.mode = "busched", !.todo = SetToSeq(env.dirty)]
  /\ env' = [env EXCEPT !.bus = @ + 1, !.dirty = {}]
  /\ hist' = AddAct([a |-> "bu", changed |-> SetToSeq(env.dirty)])
  /\ UNCHANGED prog

\* BottomUpContext::schedule_tasks_affected_by (bottom_up.rs:34)
BuSched ==
  /\ ctl.mode = "busched"
  /\ \E r \in (IF Conform THEN ResIds ELSE IF ctl.todo = <<>> THEN {} ELSE {Head(ctl.todo)}) :
       LET evs == <<[ev |-> "bu_sched", r |-> r]>> \o SchedByRes(r, {"rd", "wr"})
       IN /\ Emit(evs, prog)
          /\ ctl' = [ctl EXCEPT !.todo = IF @ = <<>> THEN @ ELSE Tail(@), !.errs = @ + ErrCount(evs)]
  /\ UNCHANGED <<prog, env, hist>>

BuRun ==
  /\ ctl.mode = "busched" /\ (Conform \/ ctl.todo = <<>>)
  /\ Emit(<<Ev("bu_run"), Ev("build_start")>>, prog)
  /\ ctl' = [ctl EXCEPT !.mode = "sess", !.stack = <<Frame("bu", 0)>>]
  /\ UNCHANGED <<prog, env, hist>>

\* Queue::pop / pop_least_task_with_dependency_from: the scheduled task of highest topological rank (bottom_up.rs:324-358).
\* It never (transitively) depends on another scheduled task, because the ranks respect the edges (RanksRespectEdges, C10).
Least(S) == {t \in S : \A q \in S : st.rank[q] <= st.rank[t]}

\* execute_scheduled (bottom_up.rs:54): pop and execute, or finish
BuLoop ==
  /\ ctl.stack # <<>> /\ Top.k = "bu"
  /\ IF st.queue = {} THEN
       /\ Emit(<<Ev("build_end"), Ev("bu_ret")>>, prog)
       /\ ctl' = [ctl EXCEPT !.stack = <<>>, !.ret = FALSE, !.inBU = FALSE]
     ELSE \E t \in Least(st.queue) :
       /\ Emit(StartExecEvents(t), prog)
       /\ ctl' = [ctl EXCEPT !.stack = @ \o <<Frame("eas", t), StartExecFrames(t, TRUE)>>, !.ret = FALSE]
  /\ UNCHANGED <<prog, env, hist>>

RECURSIVE WrittenLoop(_)
WrittenLoop(ds) ==
  IF ds = <<>> THEN <<>>
  ELSE (IF Head(ds).k = "wr" THEN SchedByRes(Head(ds).x, {"rd"}) ELSE <<>>) \o WrittenLoop(Tail(ds))

RECURSIVE RequirersLoop(_, _, _)
RequirersLoop(t, o, qs) ==
  IF qs = <<>> THEN <<>>
  ELSE LET q == Head(qs)
           i == EdgeIdx(st, q, TRUE, t)
           d == st.deps[q][i]
       IN IF d.k # "rq" THEN RequirersLoop(t, o, Tail(qs))
          ELSE LET inc == OInc(d.c, o, d.s) IN
               <<[ev |-> "chk_req_start", t |-> q, c |-> d.c, s |-> d.s],
                 [ev |-> "chk_req_end", t |-> q, c |-> d.c, s |-> d.s, res |-> IF inc THEN "inc" ELSE "ok"]>>
               \o (IF inc THEN <<[ev |-> "schedule", t |-> q]>> ELSE <<>>)
               \o RequirersLoop(t, o, Tail(qs))

\* execute_and_schedule after the task returned (bottom_up.rs:62-108)
EasReturn ==
  /\ ctl.stack # <<>> /\ Top.k = "eas" /\ ctl.ret
  /\ LET t == Top.t
         o == ctl.retv
         evs == WrittenLoop(st.deps[t])
                \o <<[ev |-> "sched_by_task_start", t |-> t]>> \o RequirersLoop(t, o, st.inct[t])
                \o <<[ev |-> "sched_by_task_end", t |-> t]>>
     IN /\ Emit(evs, prog)
        /\ ctl' = [ctl EXCEPT !.stack = Pop(@), !.cons = @ \cup {t}, !.errs = @ + ErrCount(evs)]   \* ret stays TRUE, retv = o
  /\ UNCHANGED <<prog, env, hist>>

\* make_task_consistent (bottom_up.rs:186)
McbStep ==
  /\ ctl.stack # <<>> /\ Top.k = "mcb" /\ ~ctl.ret
  /\ LET u == Top.t IN
     IF u \in ctl.cons THEN
       /\ ctl' = [ctl EXCEPT !.stack = Pop(@), !.ret = TRUE, !.retv = st.out[u]]
       /\ Quiet
     ELSE IF st.out[u] = NONE THEN
       /\ Emit(StartExecEvents(u), prog)
       /\ ctl' = [ctl EXCEPT !.stack = ReplaceTop(@, StartExecFrames(u, TRUE))]
     ELSE
       /\ ctl' = [ctl EXCEPT !.stack = ReplaceTop(@, Frame("rsn", u))]
       /\ Quiet
  /\ UNCHANGED <<prog, env, hist>>

\* require_scheduled_now (bottom_up.rs:168)
RsnStep ==
  /\ ctl.stack # <<>> /\ Top.k = "rsn"
  /\ LET u == Top.t IN
     IF ctl.ret /\ Top.wait = u THEN        \* the required task itself was executed: return its output
       /\ ctl' = [ctl EXCEPT !.stack = Pop(@)]
       /\ Quiet
     ELSE
       LET cand == {q \in st.queue : q = u \/ Reach(st, u, q)} IN
       IF cand = {} THEN
         /\ ctl' = [ctl EXCEPT !.stack = Pop(@), !.ret = TRUE, !.retv = st.out[u]]
         /\ Quiet
       ELSE \E q \in Least(cand) :
         /\ Emit(StartExecEvents(q), prog)
         /\ ctl' = [ctl EXCEPT !.stack = ReplaceTop(@, [Top EXCEPT !.wait = q]) \o <<Frame("eas", q), StartExecFrames(q, TRUE)>>,
                               !.ret = FALSE]
  /\ UNCHANGED <<prog, env, hist>>

(***************************************************************************)
(* Next-state relation.                                                     *)
(***************************************************************************)
Internal ==
  \/ McStep \/ ChkStep \/ ChkReturn \/ RootReturn \/ ExecStep \/ RequireReturn
  \/ BuSched \/ BuRun \/ BuLoop \/ EasReturn \/ McbStep \/ RsnStep

Environment ==
  \/ ChooseInit
  \/ \E r \in ResIds, v \in (-1)..(NV - 1) : ExtSet(r, v)
  \/ \E r \in ResIds, on \in BOOLEAN : SetFault(r, on)
  \/ \E t \in TaskIds, pc \in 0..LEN : BoomArm(t, pc)
  \/ BoomClr
  \/ \E probe \in BOOLEAN : StartSession(probe)
  \/ EndSession
  \/ \E t \in TaskIds : RootReq(t)
  \/ BuBegin

Next == Internal \/ Environment

Spec == Init /\ [][Next]_vars

(***************************************************************************)
(* Properties.                                                              *)
(***************************************************************************)
NoViolation == viol = {}

\* a build always terminates within a bounded stack (C07-3 at design level)
BoundedStack == Len(ctl.stack) <= 3 * NT + 3

\* the session-consistent set only contains tasks with an output
ConsistentHaveOutput == \A t \in ctl.cons : st.out[t] # NONE

\* redundant encodings of the edge set agree
StoreWellFormed ==
  /\ \A t \in TaskIds : \A i \in DOMAIN st.deps[t] :
       LET d == st.deps[t][i] IN IF IsTaskDep(d) THEN t \in Range(st.inct[d.x]) ELSE t \in Range(st.incr[d.x])
  /\ \A u \in TaskIds : \A q \in Range(st.inct[u]) : EdgeIdx(st, q, TRUE, u) # 0
  /\ \A r \in ResIds : \A q \in Range(st.incr[r]) : EdgeIdx(st, q, FALSE, r) # 0
  /\ \A t \in TaskIds : ~Reach(st, t, t)

\* the ranks kept for the store's DAG are a bijection onto 1..n and respect every edge (C10 inside pie)
RanksRespectEdges ==
  /\ {st.rank[n] : n \in DOMAIN st.rank} = 1..Cardinality(DOMAIN st.rank)
  /\ \A t \in TaskIds : \A i \in DOMAIN st.deps[t] : st.rank[t] < st.rank[DepNode(st, st.deps[t][i])]

\* a build in progress can always take a step: the engine is never stuck inside a build (together with BoundedStack and
\* the finite programs: every build returns or aborts)
\* (a lazily generated program entry reached again on a path where it is not permitted cuts the behaviour: ExecStep)
Cut == /\ ctl.stack # <<>> /\ Top.k = "ex" /\ ~ctl.ret
       /\ LET key == <<Top.t, Top.pc, Top.acc>> IN key \in DOMAIN prog /\ ~Permitted(Top.t, Top.pc, Top.acc, prog[key])
Progress == (ctl.stack # <<>> \/ ctl.mode = "busched") => (Cut \/ ENABLED Internal)

\* vacuity witness, not an invariant: TLC must report it violated in a configuration with Retry = TRUE (a build is
\* running in a session that already aborted); `lib/vlib.py` selftest-style use: run_mc(.., extra_inv="NoRetryWitness")
NoRetryWitness == ~(ctl.mode = "aborted" /\ ctl.stack # <<>>)

\* K-findings must be explained by the listed predicates only
NoKF == kfs = {}
KnownOnly == kfs \subseteq {<<"C03", "K1_stale_requirer_after_top_down">>, <<"C01", "K1_stale_requirer_after_top_down">>, <<"C08", "K2_two_checkers_one_target">>,
                            <<"C20", "K3_stale_writer_overlap">>, <<"C20", "K4_stale_require_cycle">>,
                            <<"C20", "K5_stale_writer_hidden">>, <<"C20", "K5_stale_reader_hidden">>,
                            <<"C19", "K3_stale_writer_overlap">>, <<"C19", "K4_stale_require_cycle">>,
                            <<"C19", "K5_stale_writer_hidden">>, <<"C19", "K5_stale_reader_hidden">>}
=============================================================================
