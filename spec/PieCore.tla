------------------------------- MODULE PieCore -------------------------------
(***************************************************************************)
(* Functional core shared by the operational specification (Pie.tla), the  *)
(* trace specification (PieTrace.tla) and the property monitors            *)
(* (PieMon.tla):                                                            *)
(*   - the abstract task language (Mix, F, checker semantics),             *)
(*   - the abstract dependency store and the effect of every event of the  *)
(*     event alphabet on it (StoreStep),                                    *)
(*   - the independent from-scratch oracle (Scratch).                       *)
(* Everything here is a constant-level operator on explicit records, so    *)
(* the same definitions advance the state in model checking (events chosen *)
(* by the operational spec) and in trace validation (events recorded from  *)
(* the implementation).                                                     *)
(***************************************************************************)
EXTENDS Integers, Sequences, FiniteSets, TLC, DagAlgo

CONSTANT EdgeReinsertMovesToBack  \* TRUE: DAG::add_edge on an existing edge moves the child to the back (defect F1)

NONE   == -2   \* no cached output
ABSENT == -1   \* resource does not exist

Range(s) == {s[i] : i \in DOMAIN s}
Last(s) == s[Len(s)]
Front(s) == SubSeq(s, 1, Len(s) - 1)

(***************************************************************************)
(* The abstract task language.                                              *)
(***************************************************************************)
Mix(acc, obs, na) == (3 * acc + obs + 2) % na

\* value function: f < 0 -> ABSENT; f < nv -> constant f; f = nv + k -> (acc + k) % nv
F(f, acc, nv) == IF f < 0 THEN ABSENT ELSE IF f < nv THEN f ELSE (acc + (f - nv)) % nv
FRet(f, acc, nv) == F(IF f < 0 THEN 0 ELSE f, acc, nv)

\* resource checkers: stamp of content x
RStamp(c, x) ==
  CASE c \in {"eq", "eqF"} -> x
    [] c = "ex"  -> IF x = ABSENT THEN 0 ELSE 1
    [] c = "par" -> IF x = ABSENT THEN ABSENT ELSE x % 2
    [] c = "any" -> 0
    [] c = "near" -> x
    [] OTHER -> -99
Abs(n) == IF n < 0 THEN -n ELSE n
\* inconsistent?  ("near" tolerates a distance of one: a coarse checker that is not an equivalence)
RInc(c, cur, s) == IF c = "near" THEN Abs(cur - s) > 1 ELSE RStamp(c, cur) # s
\* what a task observes of a resource read with checker c (with "near" it observes nothing)
RObs(c, x) == IF c = "near" THEN 0 ELSE RStamp(c, x)

\* output checkers: outputs encode Ok(k) as 2k and Err(k) as 2k+1
OStamp(c, o) ==
  CASE c = "eq"    -> o
    [] c = "okeq"  -> IF o % 2 = 0 THEN o \div 2 ELSE -1
    [] c = "erreq" -> IF o % 2 = 1 THEN o \div 2 ELSE -1
    [] c = "res"   -> o % 2
    [] c = "any"   -> 0
    [] c = "near"  -> o
    [] OTHER -> -99
OInc(c, o, s) == IF c = "near" THEN Abs(o - s) > 1 ELSE OStamp(c, o) # s
OObs(c, o) == IF c = "near" THEN 0 ELSE OStamp(c, o)

IsTaskDep(d) == d.k \in {"rq", "rsv"}
IsResDep(d)  == d.k \in {"rd", "wr"}

(***************************************************************************)
(* The abstract dependency store.                                           *)
(*   res[r]   content of resource r                                         *)
(*   out[t]   cached output of task t (NONE while new/executing/aborted)    *)
(*   deps[t]  outgoing edges of t in the store's iteration order            *)
(*   inct[u]  sources of the edges into task u, in iteration order          *)
(*   incr[r]  sources of the edges into resource r, in iteration order      *)
(*   known    task nodes in creation order                                  *)
(*   estk     tasks currently executing (innermost last)                    *)
(*   queue    scheduled tasks of the running bottom-up build                *)
(*   rank     topological rank of every node of the store's DAG (task t is  *)
(*            node t, resource r is node nt + r), maintained as             *)
(*            pie_graph::DAG does (DagAlgo.tla)                              *)
(***************************************************************************)
StoreInit(nt, nr, init) ==
  [res   |-> [r \in 1..nr |-> init[r]],
   out   |-> [t \in 1..nt |-> NONE],
   deps  |-> [t \in 1..nt |-> <<>>],
   inct  |-> [t \in 1..nt |-> <<>>],
   incr  |-> [r \in 1..nr |-> <<>>],
   known |-> <<>>,
   estk  |-> <<>>,
   queue |-> {},
   rank  |-> <<>>,
   justReq |-> 0]        \* the task whose require_start was the previous event (0 otherwise)

Tasks(st) == DOMAIN st.out
Ress(st)  == DOMAIN st.res

Cur(st) == IF st.estk = <<>> THEN 0 ELSE Last(st.estk)

\* ---- the DAG behind the store: nodes, adjacency in iteration order, ranks
NTasks(st) == Cardinality(DOMAIN st.out)
RNode(st, r) == NTasks(st) + r
DepNode(st, d) == IF d.k \in {"rq", "rsv"} THEN d.x ELSE RNode(st, d.x)
NodeAdd(st, n) == IF n \in DOMAIN st.rank THEN st ELSE [st EXCEPT !.rank = (n :> (Cardinality(DOMAIN st.rank) + 1)) @@ @]
GView(st) ==
  LET nt == NTasks(st)
      N == DOMAIN st.rank
  IN [order |-> st.rank,
      kids |-> [n \in N |-> IF n <= nt THEN [i \in DOMAIN st.deps[n] |-> DepNode(st, st.deps[n][i])] ELSE <<>>],
      pars |-> [n \in N |-> IF n <= nt THEN st.inct[n] ELSE st.incr[n - nt]]]

\* index of the edge from t to target x of node class `task` (0 if none)
EdgeIdx(st, t, task, x) ==
  LET I == {i \in DOMAIN st.deps[t] : st.deps[t][i].x = x /\ IsTaskDep(st.deps[t][i]) = task}
  IN IF I = {} THEN 0 ELSE CHOOSE i \in I : TRUE

RemoveAt(s, i) == SubSeq(s, 1, i - 1) \o SubSeq(s, i + 1, Len(s))
RemoveVal(s, v) == SelectSeq(s, LAMBDA y : y # v)

Succ(st, a) == {st.deps[a][i].x : i \in {j \in DOMAIN st.deps[a] : IsTaskDep(st.deps[a][j])}}

RECURSIVE ReachSet(_, _, _)
ReachSet(st, frontier, seen) ==
  IF frontier = {} THEN seen
  ELSE LET nxt == (UNION {Succ(st, a) : a \in frontier}) \ seen
       IN ReachSet(st, nxt, seen \cup nxt)

\* DAG::contains_transitive_edge(a, b): FALSE for a = b
Reach(st, a, b) == a # b /\ b \in ReachSet(st, {a}, {})

\* DAG::add_edge(t -> x) as written: an existing edge keeps its first data
AddEdge(st, t, d) ==
  LET task == IsTaskDep(d)
      i == EdgeIdx(st, t, task, d.x)
  IN IF i # 0
     THEN IF EdgeReinsertMovesToBack
          THEN [st EXCEPT !.deps[t] = Append(RemoveAt(@, i), st.deps[t][i])]
          ELSE st
     ELSE LET st1 == IF task
                     THEN [st EXCEPT !.deps[t] = Append(@, d), !.inct[d.x] = Append(@, t)]
                     ELSE [st EXCEPT !.deps[t] = Append(@, d), !.incr[d.x] = Append(@, t)]
              dst == DepNode(st, d)
          IN IF t \in DOMAIN st1.rank /\ dst \in DOMAIN st1.rank
             THEN [st1 EXCEPT !.rank = RanksAfterEdge(GView(st1), t, dst)]     \* Pearce-Kelly reordering of the affected region
             ELSE st1

\* Store::reset_task: drop output and all outgoing edges
RECURSIVE DropIncoming(_, _, _)
DropIncoming(st, t, ds) ==
  IF ds = <<>> THEN st
  ELSE LET d == Head(ds)
           st1 == IF IsTaskDep(d) THEN [st EXCEPT !.inct[d.x] = RemoveVal(@, t)]
                                  ELSE [st EXCEPT !.incr[d.x] = RemoveVal(@, t)]
       IN DropIncoming(st1, t, Tail(ds))

ResetTask(st, t) ==
  LET st1 == DropIncoming(st, t, st.deps[t])
  IN [st1 EXCEPT !.out[t] = NONE, !.deps[t] = <<>>]

DepOnRes(st, t, r) == LET i == EdgeIdx(st, t, FALSE, r) IN st.deps[t][i]

\* Store::get_task_writing_to_resource: first write edge among the incoming edges
WriterOf(st, r) ==
  LET ws == SelectSeq(st.incr[r], LAMBDA t : DepOnRes(st, t, r).k = "wr")
  IN IF ws = <<>> THEN 0 ELSE Head(ws)
AllWriters(st, r) == {t \in Range(st.incr[r]) : DepOnRes(st, t, r).k = "wr"}
ReadersOf(st, r) == SelectSeq(st.incr[r], LAMBDA t : DepOnRes(st, t, r).k = "rd")

\* the nodes in ascending rank, tasks as t and resources as 100 + r (what the store dump reports)
RECURSIVE RankSeqR(_, _)
RankSeqR(st, N) ==
  IF N = {} THEN <<>>
  ELSE LET n == CHOOSE x \in N : \A y \in N : st.rank[x] <= st.rank[y]
       IN <<IF n <= NTasks(st) THEN n ELSE 100 + (n - NTasks(st))>> \o RankSeqR(st, N \ {n})
RankSeq(st) == RankSeqR(st, DOMAIN st.rank)

KnownAdd(st, u) == IF u \in Range(st.known) THEN st ELSE [st EXCEPT !.known = Append(@, u)]

(***************************************************************************)
(* Effect of one event on the store.  Events that do not change the store  *)
(* (checks, starts, checker calls ...) leave it unchanged.  The operators  *)
(* are total: malformed events (e.g. an end without a start) leave the     *)
(* store unchanged and are reported by the monitors.                       *)
(***************************************************************************)
StoreStep0(st, e) ==
  CASE e.ev = "ext_set" -> [st EXCEPT !.res[e.r] = e.v]
    [] e.ev = "res_set" -> IF e.r \in Ress(st) THEN [st EXCEPT !.res[e.r] = e.v] ELSE st
    [] e.ev = "sess_start" -> [st EXCEPT !.estk = <<>>, !.queue = {}]
    [] e.ev = "sess_end" ->        \* the session end reports the actual contents: continue from them
         IF "res" \in DOMAIN e /\ DOMAIN e.res = DOMAIN st.res THEN [st EXCEPT !.res = [r \in DOMAIN st.res |-> e.res[r]]] ELSE st
    [] e.ev = "bu_begin" -> [st EXCEPT !.queue = {}]
    [] e.ev \in {"root_panic", "bu_panic"} -> [st EXCEPT !.estk = <<>>, !.queue = {}]
    [] e.ev = "exec_start" ->
         IF e.t \notin Tasks(st) THEN st
         ELSE LET st1 == ResetTask(NodeAdd(KnownAdd(st, e.t), e.t), e.t)
                  \* a task without output that is required is executed as new WITHOUT being taken from the queue
                  \* (bottom_up.rs make_task_consistent); every other execution of a bottom-up build is a pop
                  asNew == st.out[e.t] = NONE /\ st.justReq = e.t
              IN [st1 EXCEPT !.estk = Append(@, e.t), !.queue = IF asNew THEN @ ELSE @ \ {e.t}]
    [] e.ev = "exec_end" ->
         IF e.t \notin Tasks(st) \/ Cur(st) # e.t THEN st
         ELSE [st EXCEPT !.out[e.t] = e.o, !.estk = Front(@)]
    [] e.ev = "require_start" ->
         IF e.t \notin Tasks(st) THEN st
         ELSE LET st1 == NodeAdd(KnownAdd(st, e.t), e.t)
                  c == Cur(st)
              IN IF c = 0 \/ c = e.t \/ Reach(st1, e.t, c) THEN st1   \* root require, or rejected as a cycle
                 ELSE AddEdge(st1, c, [k |-> "rsv", x |-> e.t, c |-> "", s |-> 0])
    [] e.ev = "require_end" ->
         LET c == Cur(st)
             i == IF c = 0 \/ e.t \notin Tasks(st) THEN 0 ELSE EdgeIdx(st, c, TRUE, e.t)
         IN IF i = 0 THEN st
            ELSE [st EXCEPT !.deps[c][i] = [k |-> "rq", x |-> e.t, c |-> e.c, s |-> e.s]]
    [] e.ev = "read_end" ->
         IF Cur(st) = 0 \/ e.r \notin Ress(st) THEN st
         ELSE AddEdge(st, Cur(st), [k |-> "rd", x |-> e.r, c |-> e.c, s |-> e.s])
    [] e.ev = "write_end" ->
         IF Cur(st) = 0 \/ e.r \notin Ress(st) THEN st
         ELSE AddEdge(st, Cur(st), [k |-> "wr", x |-> e.r, c |-> e.c, s |-> e.s])
    [] e.ev = "schedule" -> IF e.t \in Tasks(st) THEN [st EXCEPT !.queue = @ \cup {e.t}] ELSE st
    [] e.ev \in {"read_start", "write_start"} ->          \* get_or_create_resource_node
         IF Cur(st) # 0 /\ e.r \in Ress(st) THEN NodeAdd(st, RNode(st, e.r)) ELSE st
    [] e.ev = "sched_by_res_start" -> IF e.r \in Ress(st) THEN NodeAdd(st, RNode(st, e.r)) ELSE st
    [] OTHER -> st

StoreStep(st, e) == [StoreStep0(st, e) EXCEPT !.justReq = IF e.ev = "require_start" THEN e.t ELSE 0]

(***************************************************************************)
(* The from-scratch oracle: what executing the given roots on an empty     *)
(* store against resource state res0 produces.  Written independently of   *)
(* the incremental algorithms.  P = [prog, nt, nr, nv, na].                 *)
(*   status: "ok" | "cyclic" | "hidden" | "overlap" | "offtable"            *)
(***************************************************************************)
SInit(P, res0) ==
  [res |-> res0,
   out |-> [t \in 1..P.nt |-> NONE],
   req |-> [t \in 1..P.nt |-> {}],
   rdr |-> [r \in 1..P.nr |-> {}],
   wtr |-> [r \in 1..P.nr |-> 0],
   stk |-> <<>>, vis |-> {}, status |-> "ok"]

RECURSIVE SReachSet(_, _, _)
SReachSet(S, frontier, seen) ==
  IF frontier = {} THEN seen
  ELSE LET nxt == (UNION {S.req[a] : a \in frontier}) \ seen
       IN SReachSet(S, nxt, seen \cup nxt)
SReach(S, a, b) == a # b /\ b \in SReachSet(S, {a}, {})

RECURSIVE SExec(_, _, _, _, _)
RECURSIVE SReq(_, _, _)
SReq(P, S, u) ==
  IF S.status # "ok" THEN S
  ELSE IF u \in Range(S.stk) THEN [S EXCEPT !.status = "cyclic"]
  ELSE IF S.out[u] # NONE THEN S
  ELSE SExec(P, [S EXCEPT !.stk = Append(@, u), !.vis = @ \cup {u}], u, 0, 0)

SExec(P, S, t, pc, acc) ==
  IF S.status # "ok" THEN S
  ELSE IF <<t, pc, acc>> \notin DOMAIN P.prog THEN [S EXCEPT !.status = "offtable"]
  ELSE
  LET op == P.prog[<<t, pc, acc>>] IN
  CASE op.k = "ret" -> [S EXCEPT !.out[t] = FRet(op.f, acc, P.nv), !.stk = Front(@)]
    [] op.k = "rd" ->
         LET w == S.wtr[op.x] IN
         IF w # 0 /\ ~SReach(S, t, w) THEN [S EXCEPT !.status = "hidden"]
         ELSE SExec(P, [S EXCEPT !.rdr[op.x] = @ \cup {t}], t, pc + 1, Mix(acc, RObs(op.c, S.res[op.x]), P.na))
    [] op.k \in {"wr", "wt"} ->
         IF S.wtr[op.x] # 0 THEN [S EXCEPT !.status = "overlap"]
         ELSE IF \E q \in S.rdr[op.x] : ~SReach(S, q, t) THEN [S EXCEPT !.status = "hidden"]
         ELSE SExec(P, [S EXCEPT !.res[op.x] = F(op.f, acc, P.nv), !.wtr[op.x] = t], t, pc + 1, acc)
    [] op.k = "rq" ->
         LET S1 == SReq(P, [S EXCEPT !.req[t] = @ \cup {op.x}], op.x) IN
         IF S1.status # "ok" THEN S1
         ELSE SExec(P, S1, t, pc + 1, Mix(acc, OObs(op.c, S1.out[op.x]), P.na))
    [] OTHER -> [S EXCEPT !.status = "offtable"]

RECURSIVE SRoots(_, _, _)
SRoots(P, S, roots) == IF roots = <<>> THEN S ELSE SRoots(P, SReq(P, S, Head(roots)), Tail(roots))

Scratch(P, roots, res0) == SRoots(P, SInit(P, res0), roots)
=============================================================================
