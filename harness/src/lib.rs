//! Conformance harness binding the TLA+ specification in /verif/spec to the real `pie` / `pie_graph` crates.
pub mod model;
pub mod world;
pub mod types;
pub mod tracker;
pub mod run;
pub mod gen;
pub mod unit;
