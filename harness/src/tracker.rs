//! Full-fidelity recording tracker (all 23 methods), rendering arguments to the abstract ids of the scenario.
use std::error::Error;
use std::fmt::Debug;

use serde_json::{json, Value};

use pie::tracker::Tracker;
use pie::trait_object::{KeyObj, ValueObj};

use crate::types::*;
use crate::world::{self, emit};

pub struct Recorder {
  pub which: usize,
}

fn tid(task: &dyn KeyObj) -> i64 {
  task_id_of(task.as_any().type_id(), parse_num(&format!("{:?}", task))).unwrap_or(0)
}
fn rid(res: &dyn KeyObj) -> i64 {
  res_id_of(res.as_any().type_id(), parse_num(&format!("{:?}", res))).unwrap_or(0)
}
fn chk(c: &dyn ValueObj) -> &'static str { parse_chk(&format!("{:?}", c)) }
fn val(v: &dyn ValueObj) -> i64 { parse_val(&format!("{:?}", v)) }

impl Recorder {
  fn rec(&mut self, v: Value) {
    let s = v.to_string();
    world::digest(self.which, &s);
    if self.which == 0 { emit(v); }
  }
}

fn res3(r: Result<Option<&dyn Debug>, &dyn Error>) -> &'static str {
  match r { Ok(None) => "ok", Ok(Some(_)) => "inc", Err(_) => "err" }
}

impl Tracker for Recorder {
  fn build_start(&mut self) { self.rec(json!({"ev":"build_start"})); }
  fn build_end(&mut self) { self.rec(json!({"ev":"build_end"})); }

  fn require_start(&mut self, task: &dyn KeyObj, checker: &dyn ValueObj) {
    let t = tid(task);
    if self.which == 0 { world::with(|w| if !w.known.contains(&t) { w.known.push(t) }); }
    self.rec(json!({"ev":"require_start","t":t,"c":chk(checker)}));
  }
  fn require_end(&mut self, task: &dyn KeyObj, checker: &dyn ValueObj, stamp: &dyn ValueObj, output: &dyn ValueObj) {
    self.rec(json!({"ev":"require_end","t":tid(task),"c":chk(checker),"s":val(stamp),"o":val(output)}));
  }

  fn read_start(&mut self, resource: &dyn KeyObj, checker: &dyn ValueObj) {
    self.rec(json!({"ev":"read_start","r":rid(resource),"c":chk(checker)}));
  }
  fn read_end(&mut self, resource: &dyn KeyObj, checker: &dyn ValueObj, stamp: &dyn ValueObj) {
    self.rec(json!({"ev":"read_end","r":rid(resource),"c":chk(checker),"s":val(stamp)}));
  }
  fn write_start(&mut self, resource: &dyn KeyObj, checker: &dyn ValueObj) {
    self.rec(json!({"ev":"write_start","r":rid(resource),"c":chk(checker)}));
  }
  fn write_end(&mut self, resource: &dyn KeyObj, checker: &dyn ValueObj, stamp: &dyn ValueObj) {
    self.rec(json!({"ev":"write_end","r":rid(resource),"c":chk(checker),"s":val(stamp)}));
  }

  fn check_task_start(&mut self, task: &dyn KeyObj, checker: &dyn ValueObj, stamp: &dyn ValueObj) {
    self.rec(json!({"ev":"check_task_start","t":tid(task),"c":chk(checker),"s":val(stamp)}));
  }
  fn check_task_end(&mut self, task: &dyn KeyObj, checker: &dyn ValueObj, stamp: &dyn ValueObj, inconsistency: Option<&dyn Debug>) {
    self.rec(json!({"ev":"check_task_end","t":tid(task),"c":chk(checker),"s":val(stamp),
      "res": if inconsistency.is_some() { "inc" } else { "ok" }}));
  }
  fn check_resource_start(&mut self, resource: &dyn KeyObj, checker: &dyn ValueObj, stamp: &dyn ValueObj) {
    self.rec(json!({"ev":"check_res_start","r":rid(resource),"c":chk(checker),"s":val(stamp)}));
  }
  fn check_resource_end(&mut self, resource: &dyn KeyObj, checker: &dyn ValueObj, stamp: &dyn ValueObj, inconsistency: Result<Option<&dyn Debug>, &dyn Error>) {
    self.rec(json!({"ev":"check_res_end","r":rid(resource),"c":chk(checker),"s":val(stamp),"res":res3(inconsistency)}));
  }

  fn execute_start(&mut self, task: &dyn KeyObj) { self.rec(json!({"ev":"exec_start","t":tid(task)})); }
  fn execute_end(&mut self, task: &dyn KeyObj, output: &dyn ValueObj) {
    self.rec(json!({"ev":"exec_end","t":tid(task),"o":val(output)}));
  }

  fn schedule_affected_by_task_start(&mut self, task: &dyn KeyObj) {
    self.rec(json!({"ev":"sched_by_task_start","t":tid(task)}));
  }
  fn check_task_require_task_start(&mut self, requiring_task: &dyn KeyObj, checker: &dyn ValueObj, stamp: &dyn ValueObj) {
    self.rec(json!({"ev":"chk_req_start","t":tid(requiring_task),"c":chk(checker),"s":val(stamp)}));
  }
  fn check_task_require_task_end(&mut self, requiring_task: &dyn KeyObj, checker: &dyn ValueObj, stamp: &dyn ValueObj, inconsistency: Option<&dyn Debug>) {
    self.rec(json!({"ev":"chk_req_end","t":tid(requiring_task),"c":chk(checker),"s":val(stamp),
      "res": if inconsistency.is_some() { "inc" } else { "ok" }}));
  }
  fn schedule_affected_by_task_end(&mut self, task: &dyn KeyObj) {
    self.rec(json!({"ev":"sched_by_task_end","t":tid(task)}));
  }

  fn schedule_affected_by_resource_start(&mut self, resource: &dyn KeyObj) {
    self.rec(json!({"ev":"sched_by_res_start","r":rid(resource)}));
  }
  fn check_task_read_resource_start(&mut self, reading_task: &dyn KeyObj, checker: &dyn ValueObj, stamp: &dyn ValueObj) {
    self.rec(json!({"ev":"chk_read_start","t":tid(reading_task),"c":chk(checker),"s":val(stamp)}));
  }
  fn check_task_read_resource_end(&mut self, reading_task: &dyn KeyObj, checker: &dyn ValueObj, stamp: &dyn ValueObj, inconsistency: Result<Option<&dyn Debug>, &dyn Error>) {
    self.rec(json!({"ev":"chk_read_end","t":tid(reading_task),"c":chk(checker),"s":val(stamp),"res":res3(inconsistency)}));
  }
  fn schedule_affected_by_resource_end(&mut self, resource: &dyn KeyObj) {
    self.rec(json!({"ev":"sched_by_res_end","r":rid(resource)}));
  }

  fn schedule_task(&mut self, task: &dyn KeyObj) { self.rec(json!({"ev":"schedule","t":tid(task)})); }
}
