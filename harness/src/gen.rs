//! Seeded random scenario generator (larger universes than TLC enumerates).  Programs are total tables that are
//! well-formed by construction (family WF and its variants): every path through a task's table is checked against the
//! well-formedness rules of DESIGN.md section 3.1 and offending entries are replaced by `ret` until a fixpoint is reached.
use std::collections::{BTreeMap, BTreeSet};

use rand::rngs::StdRng;
use rand::seq::SliceRandom;
use rand::{Rng, SeedableRng};

use crate::model::*;

const RCHK: [&str; 5] = ["eq", "ex", "par", "any", "near"];
const OCHK: [&str; 6] = ["eq", "okeq", "erreq", "res", "any", "near"];

#[derive(Clone, Default, PartialEq, Eq, PartialOrd, Ord)]
struct Ctx {
  required: BTreeMap<i64, String>,
  read: BTreeMap<i64, String>,
  written: BTreeSet<i64>,
}

pub struct GenCfg {
  /// fixed dimensions (tasks, resources, len) and probes in creation order only: batches for conformance checking
  pub fixed: Option<(usize, usize, usize)>,
  pub family: String,
  pub max_t: usize,
  pub max_r: usize,
  pub max_len: usize,
  pub steps: usize,
  /// probability of the wide profile (every task reads one common source first; histories of bottom-up builds)
  pub wide: f64,
  /// probability of the deep-chain profile (negative: the default mix)
  pub chain: f64,
}

struct G<'a> {
  /// wide profile: the source every task reads first
  wide: Option<i64>,
  /// optional-output profile: (writer, its resource, a reader, a source resource, the reader's output checker)
  optwrite: Option<(i64, i64, i64, i64, String)>,
  /// resources of the library's own map resource type only admit the library's equality checker
  maponly: BTreeSet<i64>,
  /// file resources admit the content hash checker ("eq") and the existence checker ("ex")
  fileonly: BTreeSet<i64>,
  rng: &'a mut StdRng,
  nt: usize,
  nr: usize,
  nv: i64,
  na: i64,
  len: usize,
  writer: Vec<i64>,
  rchk: Vec<&'static str>,
  ochk: Vec<&'static str>,
  /// tasks that must not write (identity twins share a program row)
  nowrite: BTreeSet<i64>,
  /// lowest task id each task may require (static order), per task
  min_req: Vec<i64>,
  free: bool,
  one_chk: bool,
}

fn robs(c: &str, nv: i64) -> Vec<i64> {
  match c { "eq" | "eqF" => (-1..nv).collect(), "ex" => vec![0, 1], "par" => vec![-1, 0, 1], _ => vec![0] }
}
fn oobs(c: &str, nv: i64) -> Vec<i64> {
  match c {
    "eq" => (0..nv).collect(),
    "okeq" | "erreq" => (-1..(nv + 1) / 2).collect(),
    "res" => vec![0, 1],
    _ => vec![0],
  }
}

impl<'a> G<'a> {
  /// value function of a return/write: mostly dependent on what the task observed, so that changes propagate
  fn rand_f(&mut self, allow_absent: bool) -> i64 {
    if allow_absent && self.rng.gen_bool(0.1) { return -1; }
    if self.rng.gen_bool(0.7) { self.nv + self.rng.gen_range(0..2) } else { self.rng.gen_range(0..self.nv) }
  }
  fn permitted(&self, t: i64, op: &Op, ctx: &Ctx) -> bool {
    match op.k.as_str() {
      "ret" => true,
      "rd" => {
        let r = op.x;
        if self.maponly.contains(&r) && op.c != "eq" { return false; }
        if self.fileonly.contains(&r) && op.c != "eq" && op.c != "ex" { return false; }
        if ctx.written.contains(&r) { return false; }
        if self.one_chk { if let Some(c) = ctx.read.get(&r) { if *c != op.c { return false; } } }
        if self.free { return true; }
        let w = self.writer[(r - 1) as usize];
        if w == t { return false; }
        w == 0 || ctx.required.contains_key(&w)
      }
      "rq" => {
        let u = op.x;
        if self.one_chk { if let Some(c) = ctx.required.get(&u) { if *c != op.c { return false; } } }
        if self.free { return u != t; }
        u >= self.min_req[(t - 1) as usize] && u != t
      }
      "wr" | "wt" => {
        let r = op.x;
        if self.maponly.contains(&r) && op.c != "eq" { return false; }
        if ctx.written.contains(&r) || ctx.read.contains_key(&r) { return false; }
        if self.free { return true; }
        self.writer[(r - 1) as usize] == t && !self.nowrite.contains(&t)
      }
      _ => false,
    }
  }

  fn random_op(&mut self, t: i64, pc: usize, ctx: &Ctx) -> Op {
    if pc >= self.len { let f = self.rand_f(false); return Op::ret(f); }
    for _ in 0..12 {
      let roll = self.rng.gen_range(0..100);
      let op = if roll < 38 {
        // bias reads towards resources already read (same target twice) sometimes
        let r = if !ctx.read.is_empty() && self.rng.gen_bool(0.2) {
          *ctx.read.keys().collect::<Vec<_>>().choose(self.rng).unwrap().clone()
        } else { self.rng.gen_range(1..=self.nr as i64) };
        let c = if self.maponly.contains(&r) { "eq".to_string() }
          else if self.fileonly.contains(&r) && !ctx.read.contains_key(&r) { if self.rng.gen_bool(0.7) { "eq".to_string() } else { "ex".to_string() } }
          else if let (true, Some(c)) = (self.one_chk, ctx.read.get(&r)) { c.clone() } else { self.rchk.choose(self.rng).unwrap().to_string() };
        Op::rd(r, &c)
      } else if roll < 68 {
        let u = if !ctx.required.is_empty() && self.rng.gen_bool(0.15) {
          *ctx.required.keys().collect::<Vec<_>>().choose(self.rng).unwrap().clone()
        } else if self.rng.gen_bool(0.45) {
          // hubs: the last task ids are required by many tasks (shared sub-tasks, diamonds)
          self.rng.gen_range((self.nt as i64 - 1).max(1)..=self.nt as i64)
        } else if !self.free && (t as usize) < self.nt {
          self.rng.gen_range(t + 1..=self.nt as i64)
        } else { self.rng.gen_range(1..=self.nt as i64) };
        let c = if let (true, Some(c)) = (self.one_chk, ctx.required.get(&u)) { c.clone() } else { self.ochk.choose(self.rng).unwrap().to_string() };
        Op::rq(u, &c)
      } else if roll < 90 {
        let mine: Vec<i64> = (1..=self.nr as i64).filter(|r| self.free || self.writer[(*r - 1) as usize] == t).collect();
        if mine.is_empty() { continue; }
        let r = *mine.choose(self.rng).unwrap();
        // a generated resource is written with an exact checker: a coarse checker cannot notice (and so cannot
        // repair) every external change to the written content, which would put the program outside C01's domain
        let c = if self.rchk.contains(&"eqF") && self.rng.gen_bool(0.5) && !self.maponly.contains(&r) { "eqF".to_string() } else { "eq".to_string() };
        let f = self.rand_f(true);
        if self.rng.gen_bool(0.75) { Op::wr(r, &c, f) } else { Op::wt(r, &c, f) }
      } else {
        let f = self.rand_f(false); Op::ret(f)
      };
      if self.permitted(t, &op, ctx) { return op; }
    }
    let f = self.rand_f(false); Op::ret(f)
  }

  /// Explores all paths of task t's table, filling undefined entries and returning the first entry that is not
  /// permitted on some path (to be replaced by a ret).
  fn explore(&mut self, t: i64, table: &mut Vec<Vec<Option<Op>>>) -> Option<(usize, usize)> {
    let mut seen: BTreeSet<(usize, i64, Ctx)> = BTreeSet::new();
    let mut stack: Vec<(usize, i64, Ctx)> = vec![(0, 0, Ctx::default())];
    while let Some((pc, acc, ctx)) = stack.pop() {
      if !seen.insert((pc, acc, ctx.clone())) { continue; }
      if pc > self.len { continue; }
      if table[pc][acc as usize].is_none() {
        let op = self.random_op(t, pc, &ctx);
        table[pc][acc as usize] = Some(op);
      }
      let op = table[pc][acc as usize].clone().unwrap();
      if pc == self.len && op.k != "ret" { return Some((pc, acc as usize)); }
      if !self.permitted(t, &op, &ctx) { return Some((pc, acc as usize)); }
      match op.k.as_str() {
        "ret" => {}
        "rd" => {
          let mut c2 = ctx.clone();
          c2.read.entry(op.x).or_insert(op.c.clone());
          for o in robs(&op.c, self.nv) { stack.push((pc + 1, mix(acc, o, self.na), c2.clone())); }
        }
        "rq" => {
          let mut c2 = ctx.clone();
          c2.required.insert(op.x, op.c.clone());
          for o in oobs(&op.c, self.nv) { stack.push((pc + 1, mix(acc, o, self.na), c2.clone())); }
        }
        _ => {
          let mut c2 = ctx.clone();
          c2.written.insert(op.x);
          stack.push((pc + 1, acc, c2));
        }
      }
    }
    None
  }

  fn gen_task(&mut self, t: i64, chain: bool) -> Vec<Vec<Op>> {
    let mut table: Vec<Vec<Option<Op>>> = vec![vec![None; self.na as usize]; self.len + 1];
    if let Some(src) = self.wide {
      // wide profile: every task reads the same source first, so that one change schedules all of them at once in a
      // bottom-up build and what they do next (including whom they require) depends on the new value
      for a in 0..self.na as usize { table[0][a] = Some(Op::rd(src, "eq")); }
      if self.len >= 1 && (t as usize) < self.nt {
        for a in 0..self.na as usize {
          if self.rng.gen_bool(0.55) { table[1][a] = Some(Op::rq(self.rng.gen_range(t + 1..=self.nt as i64), "eq")); }
        }
      }
    }
    if let Some((w, r, rdr, src, chk)) = self.optwrite.clone() {
      // optional-output profile: generator w writes its resource r only for some values of a source and keeps a
      // constant output; reader rdr requires w and reads r ("a plain resource becomes generated" and back)
      if t == w && self.len >= 2 {
        let c1 = self.rng.gen_range(0..self.nv);
        for a in 0..self.na as usize {
          table[0][a] = Some(Op::rd(src, "eq"));
          table[1][a] = Some(if self.rng.gen_bool(0.5) { Op::wr(r, "eq", self.rng.gen_range(0..self.nv)) } else { Op::ret(c1) });
          table[2][a] = Some(Op::ret(c1));
        }
      } else if t == rdr && self.len >= 2 {
        for a in 0..self.na as usize {
          table[0][a] = Some(Op::rq(w, &chk));
          table[1][a] = Some(Op::rd(r, "eq"));
        }
      }
    }
    if chain {
      // deep-chain profile: task t requires t+1 first (task 1 only for some observed values of a source: a require
      // that appears dynamically), then reads a source; entries that are not well-formed are repaired below as usual
      let nt = self.nt as i64;
      let src: Vec<i64> = (1..=self.nr as i64).filter(|r| self.writer[(*r - 1) as usize] == 0).collect();
      let pick_src = |rng: &mut StdRng| -> i64 { if src.is_empty() { 1 } else { *src.choose(rng).unwrap() } };
      if t == 1 {
        let r = pick_src(self.rng);
        for a in 0..self.na as usize { table[0][a] = Some(Op::rd(r, "eq")); }
        if self.len >= 2 {
          for a in 0..self.na as usize { if self.rng.gen_bool(0.5) { table[1][a] = Some(Op::rq(self.rng.gen_range(2..=(nt - 1).max(2)), "eq")); } }
        }
      } else {
        if t < nt { for a in 0..self.na as usize { table[0][a] = Some(Op::rq(t + 1, "eq")); } }
        if self.len >= 2 {
          let r = pick_src(self.rng);
          for a in 0..self.na as usize { table[1][a] = Some(Op::rd(r, "eq")); }
        }
      }
    }
    loop {
      match self.explore(t, &mut table) {
        None => break,
        Some((pc, acc)) => { let f = self.rand_f(false); table[pc][acc] = Some(Op::ret(f)); }
      }
    }
    table.into_iter().map(|row| row.into_iter().map(|o| o.unwrap_or_else(|| Op::ret(0))).collect()).collect()
  }
}

/// Generates one scenario of the given family.
pub fn generate(seed: u64, index: usize, cfg: &GenCfg) -> Scenario {
  let mut rng = StdRng::seed_from_u64(seed.wrapping_mul(0x9E3779B97F4A7C15).wrapping_add(index as u64));
  let fam = cfg.family.as_str();
  let nv = 4i64;
  let na = 4i64;
  let len = match cfg.fixed { Some((_, _, l)) => l, None => rng.gen_range(2..=cfg.max_len) };
  let ident = fam == "IDENT";
  // identities
  let (ttype, tnum, rtype, rnum): (Vec<u8>, Vec<u32>, Vec<u8>, Vec<u32>) = if ident {
    // groups of same-numbered tasks of different types; base TA(n) and its wrappers are adjacent
    let groups = rng.gen_range(1..=2);
    let mut tt = Vec::new(); let mut tn = Vec::new();
    for g in 1..=groups {
      let mut kinds: Vec<u8> = vec![0, 1, 2, 3, 4];
      kinds.shuffle(&mut rng);
      let take = rng.gen_range(2..=4);
      let mut ks: Vec<u8> = kinds.into_iter().take(take).collect();
      if ks.iter().any(|k| (2..=4).contains(k)) && !ks.contains(&0) { ks.push(0); }
      ks.sort_by_key(|k| match k { 1 => 9, 0 => 5, _ => 1 }); // wrappers first, then TA, then TB
      for k in ks { tt.push(k); tn.push(g as u32); }
    }
    if rng.gen_bool(0.6) { tt.push(5); tn.push(0); if rng.gen_bool(0.7) { tt.push(6); tn.push(0); } }
    let nr = rng.gen_range(2..=cfg.max_r.max(2));
    let mut rt = Vec::new(); let mut rn = Vec::new();
    for i in 0..nr { rt.push((i % 2) as u8); rn.push((i / 2 + 1) as u32); }
    (tt, tn, rt, rn)
  } else {
    let (nt, nr) = match cfg.fixed { Some((t, r, _)) => (t, r), None => (rng.gen_range(2..=cfg.max_t), rng.gen_range(2..=cfg.max_r)) };
    let map_ok = cfg.fixed.is_none() && !matches!(fam, "FAULT");
    // a fifth of the resources are keys of the library's map resource, a sixth files of its filesystem resource
    let rt: Vec<u8> = (0..nr).map(|_| if map_ok && rng.gen_bool(0.2) { 2 } else if map_ok && rng.gen_bool(0.17) { 3 } else { 0 }).collect();
    ((0..nt).map(|_| 0).collect(), (1..=nt as u32).collect(), rt, (1..=nr as u32).collect())
  };
  let nt = ttype.len();
  let nr = rtype.len();
  let free = fam == "ROLE";
  // twins: wrapper ids share the row of their base
  let mut nowrite = BTreeSet::new();
  let mut min_req: Vec<i64> = (1..=nt as i64).map(|t| t + 1).collect();
  let mut base_of: Vec<usize> = (0..nt).collect();
  if ident {
    for i in 0..nt {
      if (2..=4).contains(&ttype[i]) {
        let b = (0..nt).find(|&j| ttype[j] == 0 && tnum[j] == tnum[i]).unwrap();
        base_of[i] = b;
        nowrite.insert((i + 1) as i64); nowrite.insert((b + 1) as i64);
      }
    }
    // a shared row must respect the static order for every identity that runs it
    for i in 0..nt {
      let grp: Vec<usize> = (0..nt).filter(|&j| base_of[j] == base_of[i]).collect();
      let mx = grp.iter().max().unwrap() + 2;
      min_req[i] = mx as i64;
    }
  }
  // writer map
  let mut writer = vec![0i64; nr];
  if !free {
    for r in 0..nr {
      if rng.gen_bool(0.5) {
        let cands: Vec<i64> = (1..=nt as i64).filter(|t| !nowrite.contains(t)).collect();
        if let Some(w) = cands.choose(&mut rng) { writer[r] = *w; }
      }
    }
  }
  let exact = rng.gen_bool(0.4);
  let mut rchk: Vec<&'static str> = if exact { vec!["eq"] } else {
    let mut v: Vec<&'static str> = RCHK.to_vec(); v.shuffle(&mut rng); v.truncate(rng.gen_range(2..=5)); v
  };
  if fam == "FAULT" { rchk = vec!["eqF", "eqF", "eq"]; if !exact { rchk.push("par"); } }
  let ochk: Vec<&'static str> = if exact { vec!["eq"] } else {
    let mut v: Vec<&'static str> = OCHK.to_vec(); v.shuffle(&mut rng); v.truncate(rng.gen_range(2..=6)); v
  };
  let maponly: BTreeSet<i64> = (0..nr).filter(|i| rtype[*i] == 2).map(|i| (i + 1) as i64).collect();
  let fileonly: BTreeSet<i64> = (0..nr).filter(|i| rtype[*i] == 3).map(|i| (i + 1) as i64).collect();
  let optwrite = {
    let gens: Vec<usize> = (0..nr).filter(|r| writer[*r] > 1).collect();
    let srcs: Vec<usize> = (0..nr).filter(|r| writer[*r] == 0).collect();
    if !free && !ident && !gens.is_empty() && !srcs.is_empty() && rng.gen_bool(0.3) {
      let r = *gens.choose(&mut rng).unwrap();
      let w = writer[r];
      let rdr = rng.gen_range(1..w);
      let chk = if exact { "eq" } else { ["any", "eq", "res"][rng.gen_range(0..3)] };
      Some((w, (r + 1) as i64, rdr, (*srcs.choose(&mut rng).unwrap() + 1) as i64, chk.to_string()))
    } else { None }
  };
  let wide = {
    let srcs: Vec<usize> = (0..nr).filter(|r| writer[*r] == 0 && rtype[*r] == 0).collect();
    if !free && !ident && optwrite.is_none() && nt >= 4 && !srcs.is_empty() && rng.gen_bool(cfg.wide) { Some((*srcs.choose(&mut rng).unwrap() + 1) as i64) } else { None }
  };
  let mut g = G { wide, optwrite, maponly, fileonly, rng: &mut rng, nt, nr, nv, na, len, writer: writer.clone(), rchk, ochk, nowrite, min_req, free,
                  one_chk: fam != "TWOCHK" };
  let mut prog: Vec<Vec<Vec<Op>>> = Vec::new();
  let flip = free && g.rng.gen_bool(0.6);
  let chain = wide.is_none() && !free && !ident && nt >= 4 && g.rng.gen_bool(if cfg.chain >= 0.0 { cfg.chain } else if nt >= 6 { 0.4 } else { 0.25 });
  let forced_chain = chain && cfg.chain >= 0.0;
  for t in 1..=nt as i64 {
    if flip {
      // role-changing task: it reads the mode resource 1 first and plays a different role (writer / reader / requirer /
      // nothing) for each mode value
      let mut rows: Vec<Vec<Op>> = vec![vec![Op::rd(1, "eq"); na as usize]];
      let mut row1: Vec<Op> = (0..na).map(|_| Op::ret(g.rng.gen_range(0..nv + 2))).collect();
      for v in -1..nv {
        let acc = mix(0, v, na) as usize;
        let r = if nr >= 2 { g.rng.gen_range(2..=nr as i64) } else { 1 };
        let u = { let mut u = g.rng.gen_range(1..=nt as i64); if u == t { u = if t == nt as i64 { 1 } else { t + 1 }; } u };
        row1[acc] = match g.rng.gen_range(0..10) {
          0..=2 if nr >= 2 => Op::wr(r, "eq", g.rng.gen_range(0..nv)),
          3..=5 if nr >= 2 => Op::rd(r, "eq"),
          6..=8 if nt >= 2 => Op::rq(u, "eq"),
          _ => Op::ret(g.rng.gen_range(0..nv + 2)),
        };
      }
      rows.push(row1);
      for _ in 2..=len { rows.push((0..na).map(|_| Op::ret(g.rng.gen_range(0..nv + 2))).collect()); }
      prog.push(rows);
    } else {
      let row = g.gen_task(t, chain); prog.push(row);
    }
  }
  if ident {
    for i in 0..nt { if base_of[i] != i { prog[base_of[i]] = prog[i].clone(); } }
    for i in 0..nt { if base_of[i] != i { prog[i] = prog[base_of[i]].clone(); } }
  }
  drop(g);
  let mut note = String::new();
  // injected violation
  if fam == "INJ" {
    let mut t = rng.gen_range(1..=nt as i64);
    // half of the injections sit in the first row, which every execution of the task reaches
    let mut pc = if rng.gen_bool(0.5) { 0 } else { rng.gen_range(0..len) };
    let mut kind = rng.gen_range(0..4);
    // kind 3: a task that reads a resource generated by another task writes it itself afterwards (overlap behind a read edge)
    let mut after_read: Option<i64> = None;
    if kind == 3 {
      let mut cands: Vec<(i64, usize, i64)> = Vec::new();
      for tt in 1..=nt as i64 { for p in 0..len.saturating_sub(1) { for a in 0..na as usize {
        let o = &prog[(tt - 1) as usize][p][a];
        if o.k == "rd" && writer[(o.x - 1) as usize] != 0 && writer[(o.x - 1) as usize] != tt { cands.push((tt, p + 1, o.x)); }
      } } }
      match cands.choose(&mut rng) { Some((tt, p, r)) => { t = *tt; pc = *p; after_read = Some(*r); } None => { kind = 1; } }
    }
    let op = match kind {
      3 => { let r = after_read.unwrap(); if rng.gen_bool(0.7) { Op::wr(r, "eq", rng.gen_range(0..nv)) } else { Op::wt(r, "eq", rng.gen_range(0..nv)) } }
      0 => { // hidden read: a generated resource without requiring its writer (or any resource)
        let gens: Vec<i64> = (1..=nr as i64).filter(|r| writer[(*r - 1) as usize] != 0 && writer[(*r - 1) as usize] != t).collect();
        let r = gens.choose(&mut rng).copied().unwrap_or(rng.gen_range(1..=nr as i64));
        Op::rd(r, "eq")
      }
      1 => { // second writer / write of a source resource that others read
        let others: Vec<i64> = (1..=nr as i64).filter(|r| writer[(*r - 1) as usize] != t).collect();
        let r = others.choose(&mut rng).copied().unwrap_or(1);
        // files are mostly written by other means and declared afterwards
        let direct = if rtype[(r - 1) as usize] == 3 { 0.3 } else { 0.7 };
        if rng.gen_bool(direct) { Op::wr(r, "eq", rng.gen_range(0..nv)) } else { Op::wt(r, "eq", rng.gen_range(0..nv)) }
      }
      _ => { // require against the static order (possible cycle, including self)
        let u = rng.gen_range(1..=t);
        Op::rq(u, "eq")
      }
    };
    note = format!("injected {:?} at task {} pc {}", op, t, pc);
    let all = rng.gen_bool(0.6);
    let a0 = rng.gen_range(0..na as usize);
    for a in 0..na as usize { if all || a == a0 { prog[(t - 1) as usize][pc][a] = op.clone(); } }
  }
  // initial state
  let init: Vec<i64> = (0..nr).map(|r| if writer[r] == 0 || rng.gen_bool(0.2) { rng.gen_range(-1..nv) } else { ABSENT }).collect();
  // history
  let mut hist: Vec<Step> = Vec::new();
  let pick_roots = |rng: &mut StdRng| -> Vec<i64> {
    // partial builds: mostly one or two roots, taken from anywhere in the static order
    let k = match rng.gen_range(0..10) { 0..=4 => 1, 5..=8 => 2.min(nt), _ => 3.min(nt) };
    let mut v: Vec<i64> = Vec::new();
    for _ in 0..k {
      let t = if rng.gen_bool(0.35) { rng.gen_range(1..=((nt + 1) / 2) as i64) } else { rng.gen_range(1..=nt as i64) };
      v.push(t);
    }
    v
  };
  let mixed = rng.gen_bool(0.35) || matches!(fam, "ROLE" | "INJ" | "ABORT");
  let first_roots = if ident { (1..=nt as i64).collect::<Vec<_>>() }
    else if wide.is_some() || forced_chain || rng.gen_bool(0.5) {
      // all tasks, often not in id order: node creation order (initial ranks) then differs from the static require order, so
      // that later dynamic requires go from younger to older nodes and reorder the topological ranks
      let mut v: Vec<i64> = (1..=nt as i64).collect();
      match rng.gen_range(0..3) { 0 => {} 1 => v.reverse(), _ => v.shuffle(&mut rng) }
      v
    } else { pick_roots(&mut rng) };
  hist.push(Step::Session { acts: first_roots.iter().map(|t| Act::Req { t: *t }).collect() });
  let mut dirty: BTreeSet<i64> = BTreeSet::new();
  let mut last_roots = first_roots.clone();
  let steps = rng.gen_range(2..=cfg.steps);
  let mut boom_armed = false;
  for _ in 0..steps {
    // environment changes
    let nchg = if forced_chain { rng.gen_range(2..=3) } else { match rng.gen_range(0..10) { 0 if wide.is_none() => 0, 0..=5 => 1, 6..=8 => 2, _ => 3 } };
    for _ in 0..nchg {
      let r = if flip && rng.gen_bool(0.7) { 1 } else if let (Some(s), true) = (wide, rng.gen_bool(0.6)) { s } else { rng.gen_range(1..=nr as i64) };
      let v = rng.gen_range(-1..nv);
      hist.push(Step::Set { r, v });
      dirty.insert(r);
    }
    if fam == "FAULT" && rng.gen_bool(0.6) {
      let r = rng.gen_range(1..=nr as i64);
      hist.push(Step::Fault { r, on: rng.gen_bool(0.65) });
    }
    if fam == "ABORT" {
      if boom_armed && rng.gen_bool(0.6) { hist.push(Step::BoomClr {}); boom_armed = false; }
      else if !boom_armed && rng.gen_bool(0.6) {
        hist.push(Step::Boom { t: rng.gen_range(1..=nt as i64), pc: rng.gen_range(0..=len as i64) });
        boom_armed = true;
      }
    }
    // wide profile: mostly bottom-up builds after a change of the common source
    let roll = if (wide.is_some() || forced_chain) && rng.gen_bool(0.6) { 0 } else { rng.gen_range(0..100) };
    if roll < 45 && (fam != "ROLE" || rng.gen_bool(0.4)) {
      // bottom-up build reporting every change since the last one (plus sometimes unchanged resources)
      let mut changed: Vec<i64> = dirty.iter().copied().collect();
      if rng.gen_bool(0.3) { changed.push(rng.gen_range(1..=nr as i64)); }
      changed.shuffle(&mut rng);
      changed.dedup();
      let mut acts = vec![Act::Bu { changed }];
      if rng.gen_bool(0.3) { acts.push(Act::Req { t: rng.gen_range(1..=nt as i64) }); }
      hist.push(Step::Session { acts });
      dirty.clear();
      hist.push(Step::Probe { rev: rng.gen_bool(0.3) });
    } else if roll < 60 {
      // the same roots again
      hist.push(Step::Session { acts: last_roots.iter().map(|t| Act::Req { t: *t }).collect() });
      if !mixed { hist.push(Step::Probe { rev: false }); }
    } else if mixed || roll < 75 {
      let roots = pick_roots(&mut rng);
      let mut acts: Vec<Act> = roots.iter().map(|t| Act::Req { t: *t }).collect();
      // sometimes a file changes while the session is open and more is required afterwards (at most once per session)
      let files: Vec<i64> = (1..=nr as i64).filter(|r| rtype[(*r - 1) as usize] == 3).collect();
      if cfg.fixed.is_none() && !files.is_empty() && rng.gen_bool(0.4) {
        let r = *files.choose(&mut rng).unwrap();
        let pos = rng.gen_range(1..=acts.len());
        acts.insert(pos, Act::Set { r, v: rng.gen_range(-1..nv) });
        dirty.insert(r);
        let again = roots[rng.gen_range(0..roots.len())];
        acts.push(Act::Req { t: again });
        if rng.gen_bool(0.5) { acts.push(Act::Req { t: rng.gen_range(1..=nt as i64) }); }
      }
      hist.push(Step::Session { acts });
      last_roots = roots;
      if !mixed { hist.push(Step::Probe { rev: rng.gen_bool(0.5) }); }
    } else {
      hist.push(Step::Probe { rev: rng.gen_bool(0.5) });
    }
  }
  if boom_armed { hist.push(Step::BoomClr {}); }
  if matches!(fam, "ABORT" | "INJ" | "ROLE") {
    // sessions after the cause may have been removed
    let roots = pick_roots(&mut rng);
    hist.push(Step::Session { acts: roots.iter().map(|t| Act::Req { t: *t }).collect() });
    hist.push(Step::Probe { rev: false });
  }
  if cfg.fixed.is_some() {
    for st in hist.iter_mut() { if let Step::Probe { rev } = st { *rev = false; } }
  }
  Scenario {
    id: format!("{}-{}-{}", fam.to_lowercase(), seed, index),
    family: fam.to_string(), nt, nr, nv, na, len, ttype, tnum, rtype, rnum, writer, prog, init, hist, note, retry: false,
  }
}
