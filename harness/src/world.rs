//! Thread-local recording context shared by the instrumented task, resource, checker and tracker implementations.
use std::cell::RefCell;
use std::collections::HashSet;
use std::rc::Rc;

use serde_json::Value;

use crate::model::Scenario;

pub struct World {
  pub scn: Rc<Scenario>,
  /// recorded event lines (NDJSON)
  pub lines: Vec<String>,
  /// resources whose `eqF` checker currently fails in `check`
  pub fault: HashSet<i64>,
  /// armed crash point
  pub boom: Option<(i64, i64)>,
  /// next reader / writer instance id
  pub next_inst: i64,
  /// interpreter recursion depth
  pub depth: i64,
  /// tasks in order of first require (known to the Pie instance)
  pub known: Vec<i64>,
  /// digests of the event streams seen by the two recorders of the composite tracker
  pub digest: [u64; 2],
  pub count: [u64; 2],
  /// when false nothing is recorded (used for silent replays)
  pub recording: bool,
  /// directory of the file resources of this run, and the debug text of each value's content hash stamp
  pub file_dir: std::path::PathBuf,
  pub hash_names: std::collections::HashMap<String, i64>,
}

thread_local! {
  static WORLD: RefCell<Option<World>> = RefCell::new(None);
}

pub fn install(scn: Rc<Scenario>) {
  WORLD.with(|w| {
    *w.borrow_mut() = Some(World {
      scn,
      lines: Vec::new(),
      fault: HashSet::new(),
      boom: None,
      next_inst: 1,
      depth: 0,
      known: Vec::new(),
      digest: [0xcbf29ce484222325, 0xcbf29ce484222325],
      count: [0, 0],
      recording: true,
      file_dir: std::path::PathBuf::new(),
      hash_names: std::collections::HashMap::new(),
    });
  });
}

pub fn take_lines() -> Vec<String> {
  with(|w| std::mem::take(&mut w.lines))
}

pub fn with<R>(f: impl FnOnce(&mut World) -> R) -> R {
  WORLD.with(|w| {
    let mut b = w.borrow_mut();
    f(b.as_mut().expect("harness: no world installed"))
  })
}

pub fn scn() -> Rc<Scenario> { with(|w| w.scn.clone()) }

pub fn emit(v: Value) {
  with(|w| {
    if w.recording { w.lines.push(v.to_string()); }
  });
}

pub fn next_inst() -> i64 {
  with(|w| { let i = w.next_inst; w.next_inst += 1; i })
}

/// FNV-1a style digest update for the composite tracker comparison
pub fn digest(which: usize, s: &str) {
  with(|w| {
    let mut h = w.digest[which];
    for b in s.as_bytes() { h ^= *b as u64; h = h.wrapping_mul(0x100000001b3); }
    h ^= 0xff; h = h.wrapping_mul(0x100000001b3);
    w.digest[which] = h;
    w.count[which] += 1;
  });
}
