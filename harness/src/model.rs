//! Scenario format shared with the TLA+ specification (see DESIGN.md section 3).
use serde::{Deserialize, Serialize};

pub const ABSENT: i64 = -1;
pub const NONE: i64 = -2;

#[derive(Serialize, Deserialize, Clone, Debug, PartialEq, Eq)]
pub struct Op {
  /// "rd" | "rq" | "wr" | "wt" | "ret"
  pub k: String,
  /// target: resource id for rd/wr/wt, task id for rq, 0 for ret
  pub x: i64,
  /// checker id ("" for ret)
  pub c: String,
  /// value function for wr/wt/ret (0 otherwise)
  pub f: i64,
}

impl Op {
  pub fn ret(f: i64) -> Op { Op { k: "ret".into(), x: 0, c: "".into(), f } }
  pub fn rd(r: i64, c: &str) -> Op { Op { k: "rd".into(), x: r, c: c.into(), f: 0 } }
  pub fn rq(t: i64, c: &str) -> Op { Op { k: "rq".into(), x: t, c: c.into(), f: 0 } }
  pub fn wr(r: i64, c: &str, f: i64) -> Op { Op { k: "wr".into(), x: r, c: c.into(), f } }
  pub fn wt(r: i64, c: &str, f: i64) -> Op { Op { k: "wt".into(), x: r, c: c.into(), f } }
}

#[derive(Serialize, Deserialize, Clone, Debug)]
#[serde(tag = "a")]
pub enum Act {
  /// top-down require of task `t`
  #[serde(rename = "req")]
  Req { t: i64 },
  /// bottom-up build with the given changed resources
  #[serde(rename = "bu")]
  Bu { changed: Vec<i64> },
  /// external change of a file resource while the session is open (between two API calls)
  #[serde(rename = "set")]
  Set { r: i64, v: i64 },
}

#[derive(Serialize, Deserialize, Clone, Debug)]
#[serde(tag = "s")]
pub enum Step {
  #[serde(rename = "session")]
  Session { acts: Vec<Act> },
  /// external change of a resource (v = -1 removes it)
  #[serde(rename = "set")]
  Set { r: i64, v: i64 },
  #[serde(rename = "fault")]
  Fault { r: i64, on: bool },
  #[serde(rename = "boom")]
  Boom { t: i64, pc: i64 },
  #[serde(rename = "boom_clr")]
  BoomClr {},
  /// new session requiring every known task (creation order, or reversed)
  #[serde(rename = "probe")]
  Probe { rev: bool },
}

#[derive(Serialize, Deserialize, Clone, Debug)]
pub struct Scenario {
  pub id: String,
  /// WF | INJ | ROLE | FAULT | ABORT | IDENT | TWOCHK
  pub family: String,
  pub nt: usize,
  pub nr: usize,
  pub nv: i64,
  pub na: i64,
  /// rows per task are pc = 0..=len (row `len` is forced to be a ret)
  pub len: usize,
  /// task type per task id: 0 = TA, 1 = TB, 2 = Box<TA>, 3 = Rc<TA>, 4 = Arc<TA>
  pub ttype: Vec<u8>,
  pub tnum: Vec<u32>,
  /// resource type per resource id: 0 = VRes, 1 = WRes
  pub rtype: Vec<u8>,
  pub rnum: Vec<u32>,
  /// static writer of each resource (0 = source); informational for WF scenarios
  pub writer: Vec<i64>,
  /// prog[t-1][pc][acc]
  pub prog: Vec<Vec<Vec<Op>>>,
  /// initial content per resource (-1 absent)
  pub init: Vec<i64>,
  pub hist: Vec<Step>,
  #[serde(default)]
  pub note: String,
  /// keep using the same Session after a top-down build aborted (the caller caught the panic): later `req` acts of
  /// that session run in it (curated scenarios only; the generator never sets it)
  #[serde(default, skip_serializing_if = "std::ops::Not::not")]
  pub retry: bool,
}

impl Scenario {
  pub fn op(&self, t: i64, pc: i64, acc: i64) -> Op {
    let rows = &self.prog[(t - 1) as usize];
    if pc as usize >= rows.len() { return Op::ret(0); }
    rows[pc as usize][acc as usize].clone()
  }
  /// id of the task with the given (type, num), if any
  pub fn task_id(&self, ty: u8, num: u32) -> Option<i64> {
    (0..self.nt).find(|&i| self.ttype[i] == ty && self.tnum[i] == num).map(|i| (i + 1) as i64)
  }
  pub fn res_id(&self, ty: u8, num: u32) -> Option<i64> {
    (0..self.nr).find(|&i| self.rtype[i] == ty && self.rnum[i] == num).map(|i| (i + 1) as i64)
  }
}

// ---- the fixed functions of the abstract task language (identical in PieCore.tla) ----

pub fn mix(acc: i64, obs: i64, na: i64) -> i64 { (3 * acc + obs + 2).rem_euclid(na) }

/// value function: f < 0 -> ABSENT; f < nv -> constant f; f = nv + k -> (acc + k) % nv
pub fn fval(f: i64, acc: i64, nv: i64) -> i64 {
  if f < 0 { ABSENT } else if f < nv { f } else { (acc + (f - nv)).rem_euclid(nv) }
}

/// stamp of resource content `x` under resource checker `c`
pub fn rstamp(c: &str, x: i64) -> i64 {
  match c {
    "eq" | "eqF" => x,
    "ex" => if x == ABSENT { 0 } else { 1 },
    "par" => if x == ABSENT { ABSENT } else { x.rem_euclid(2) },
    "any" => 0,
    "near" => x,
    _ => panic!("harness: unknown resource checker {}", c),
  }
}

/// is content `cur` inconsistent with `stamp` under resource checker `c`?  (`near` tolerates a distance of one: a
/// non-transitive "coarse" checker)
pub fn rinc(c: &str, cur: i64, stamp: i64) -> bool {
  if c == "near" { (cur - stamp).abs() > 1 } else { rstamp(c, cur) != stamp }
}

/// what a task observes of a resource it read with checker `c` (a task using `near` observes nothing)
pub fn robs(c: &str, x: i64) -> i64 { if c == "near" { 0 } else { rstamp(c, x) } }
/// what a task observes of an output it required with checker `c`
pub fn oobs(c: &str, o: i64) -> i64 { if c == "near" { 0 } else { ostamp(c, o) } }

/// stamp of (encoded) output `o` under output checker `c`; outputs encode Ok(k) as 2k and Err(k) as 2k+1
pub fn ostamp(c: &str, o: i64) -> i64 {
  match c {
    "eq" => o,
    "okeq" => if o % 2 == 0 { o / 2 } else { -1 },
    "erreq" => if o % 2 == 1 { o / 2 } else { -1 },
    "res" => o % 2,
    "any" => 0,
    "near" => o,
    _ => panic!("harness: unknown output checker {}", c),
  }
}

pub fn enc_out(o: &Result<i64, i64>) -> i64 { match o { Ok(k) => 2 * k, Err(k) => 2 * k + 1 } }
pub fn dec_out(o: i64) -> Result<i64, i64> { if o % 2 == 0 { Ok(o / 2) } else { Err(o / 2) } }
