//! Scenario driver: executes the history of a scenario against a fresh `Pie` instance and records what happened.
use std::any::Any;
use std::panic::{catch_unwind, AssertUnwindSafe};
use std::rc::Rc;

use serde_json::{json, Value};

use pie::tracker::event::{Event, EventTracker};
use pie::tracker::CompositeTracker;
use pie::trait_object::KeyObj;
use pie::{Pie, ResourceState};

use crate::model::*;
use crate::tracker::Recorder;
use crate::types::*;
use crate::world::{self, emit};

pub type Trk = CompositeTracker<Recorder, CompositeTracker<EventTracker, Recorder>>;

pub fn panic_kind(p: &Box<dyn Any + Send>) -> (&'static str, String) {
  let msg = if let Some(s) = p.downcast_ref::<String>() { s.clone() } else if let Some(s) = p.downcast_ref::<&'static str>() { s.to_string() } else { String::from("<non-string panic>") };
  let kind = if msg.starts_with("Cyclic task dependency") { "cyclic" }
    else if msg.starts_with("Hidden dependency") { "hidden" }
    else if msg.starts_with("Overlapping write") { "overlap" }
    else if msg.starts_with("boom") { "boom" }
    else if msg.starts_with("diverged") { "diverged" }
    else if msg.starts_with("BUG") { "bug" }
    else if msg.starts_with("harness") { "harness" }
    else { "other" };
  // the directory of this run's file resources is unique per run: keep it out of the message (replays are compared)
  let dir = world::with(|w| w.file_dir.to_string_lossy().to_string());
  let msg = if dir.is_empty() { msg } else { msg.replace(&dir, "<files>") };
  let short: String = msg.chars().take(80).collect();
  (kind, short)
}

fn set_res(pie: &mut Pie<Trk>, scn: &Scenario, r: i64, v: i64) {
  let (ty, num) = (scn.rtype[(r - 1) as usize], scn.rnum[(r - 1) as usize]);
  fn go<const K: u8>(pie: &mut Pie<Trk>, num: u32, v: i64) {
    let map = pie.resource_state_mut::<Res<K>>().get_or_set_default_mut::<ResMap>();
    if v == ABSENT { map.remove(&num); } else { map.insert(num, v); }
  }
  match ty {
    0 => go::<0>(pie, num, v),
    1 => go::<1>(pie, num, v),
    2 => { use pie::resource::map::GetGlobalMap; let m = pie.resource_state_mut::<MK>().get_global_map_mut(); if v == ABSENT { m.remove(&MK(num)); } else { m.insert(MK(num), v); } }
    3 => file_set(num, v),
    _ => panic!("harness: unknown resource type"),
  }
}

fn get_res(pie: &mut Pie<Trk>, scn: &Scenario, r: i64) -> i64 {
  let (ty, num) = (scn.rtype[(r - 1) as usize], scn.rnum[(r - 1) as usize]);
  fn go<const K: u8>(pie: &mut Pie<Trk>, num: u32) -> i64 {
    pie.resource_state_mut::<Res<K>>().get_or_set_default::<ResMap>().get(&num).copied().unwrap_or(ABSENT)
  }
  match ty {
    0 => go::<0>(pie, num),
    1 => go::<1>(pie, num),
    2 => { use pie::resource::map::GetGlobalMap; pie.resource_state_mut::<MK>().get_global_map().get(&MK(num)).copied().unwrap_or(ABSENT) }
    3 => file_get(num),
    _ => panic!("harness: unknown resource type"),
  }
}

fn schedule(bu: &mut pie::BottomUpBuild, scn: &Scenario, r: i64) {
  let (ty, num) = (scn.rtype[(r - 1) as usize], scn.rnum[(r - 1) as usize]);
  match ty {
    0 => bu.schedule_tasks_affected_by(&Res::<0>(num) as &dyn KeyObj),
    1 => bu.schedule_tasks_affected_by(&Res::<1>(num) as &dyn KeyObj),
    2 => bu.schedule_tasks_affected_by(&MK(num) as &dyn KeyObj),
    3 => bu.schedule_tasks_affected_by(&file_path(num) as &dyn KeyObj),
    _ => panic!("harness: unknown resource type"),
  }
}

/// Renders the guarded store dump with abstract ids.
fn dump_store(pie: &Pie<Trk>) -> Value {
  let nodes = pie.verif_dump_store();
  let mut tasks = Vec::new();
  let mut ress = Vec::new();
  for n in nodes.iter() {
    let num = parse_num(&n.key);
    if n.is_task {
      let t = n.key_type.and_then(|ty| task_id_of(ty, num)).unwrap_or(0);
      let deps: Vec<Value> = n.outgoing.iter().map(|e| {
        let x = match (e.target_is_task, e.target_type) {
          (true, Some(ty)) => task_id_of(ty, parse_num(&e.target)).unwrap_or(0),
          (false, Some(ty)) => res_id_of(ty, parse_num(&e.target)).unwrap_or(0),
          _ => 0,
        };
        let k = match e.kind { "reserved" => "rsv", "require" => "rq", "read" => "rd", "write" => "wr", _ => "?" };
        if k == "rsv" { json!({"k":k,"x":x,"c":"","s":0}) } else { json!({"k":k,"x":x,"c":parse_chk(&e.checker),"s":parse_val(&e.stamp)}) }
      }).collect();
      let inc: Vec<i64> = n.incoming.iter().map(|(k, ty)| ty.and_then(|ty| task_id_of(ty, parse_num(k))).unwrap_or(0)).collect();
      tasks.push(json!({"t":t,"o":n.output.as_ref().map(|o| parse_val(o)).unwrap_or(NONE),"rank":n.rank,"deps":deps,"inc":inc}));
    } else {
      let r = n.key_type.and_then(|ty| res_id_of(ty, num)).unwrap_or(0);
      let inc: Vec<i64> = n.incoming.iter().map(|(k, ty)| ty.and_then(|ty| task_id_of(ty, parse_num(k))).unwrap_or(0)).collect();
      ress.push(json!({"r":r,"rank":n.rank,"inc":inc}));
    }
  }
  // every node in ascending topological rank: task t as t, resource r as 100 + r
  let mut order: Vec<(usize, i64)> = Vec::new();
  for t in tasks.iter() { order.push((t["rank"].as_u64().unwrap() as usize, t["t"].as_i64().unwrap())); }
  for r in ress.iter() { order.push((r["rank"].as_u64().unwrap() as usize, 100 + r["r"].as_i64().unwrap())); }
  order.sort();
  let ranks: Vec<i64> = order.into_iter().map(|(_, c)| c).collect();
  json!({"tasks":tasks,"ress":ress,"ranks":ranks})
}

fn with_task_key<R>(scn: &Scenario, t: i64, f: impl FnOnce(&dyn KeyObj) -> R) -> R {
  let (ty, num) = (scn.ttype[(t - 1) as usize], scn.tnum[(t - 1) as usize]);
  match ty {
    0 => f(&Tk::<0>(num)),
    1 => f(&Tk::<1>(num)),
    2 => f(&Box::new(Tk::<0>(num))),
    3 => f(&std::rc::Rc::new(Tk::<0>(num))),
    4 => f(&std::sync::Arc::new(Tk::<0>(num))),
    5 => f(&ZA),
    _ => f(&ZB),
  }
}
fn with_res_key<R>(scn: &Scenario, r: i64, f: impl FnOnce(&dyn KeyObj) -> R) -> R {
  let (ty, num) = (scn.rtype[(r - 1) as usize], scn.rnum[(r - 1) as usize]);
  match ty { 0 => f(&Res::<0>(num)), 1 => f(&Res::<1>(num)), 2 => f(&MK(num)), _ => f(&file_path(num)) }
}

fn key_id(k: &dyn KeyObj, task: bool) -> i64 {
  let num = parse_num(&format!("{:?}", k));
  let ty = k.as_any().type_id();
  (if task { task_id_of(ty, num) } else { res_id_of(ty, num) }).unwrap_or(0)
}

/// What the recording tracker stored for the last build and what its query helpers answer (C17-5).
fn dump_event_tracker(et: &EventTracker, scn: &Scenario) -> Value {
  let b = |x: bool| -> i64 { x as i64 };
  let mut evs = Vec::new();
  for (pos, e) in et.slice().iter().enumerate() {
    let (k, x, i) = match e {
      Event::BuildStart => ("build_start", 0, pos as i64),
      Event::BuildEnd => ("build_end", 0, pos as i64),
      Event::RequireStart(d) => ("require_start", key_id(d.task.as_ref(), true), d.index as i64),
      Event::RequireEnd(d) => ("require_end", key_id(d.task.as_ref(), true), d.index as i64),
      Event::ReadStart(d) => ("read_start", key_id(d.resource.as_ref(), false), d.index as i64),
      Event::ReadEnd(d) => ("read_end", key_id(d.resource.as_ref(), false), d.index as i64),
      Event::WriteStart(d) => ("write_start", key_id(d.resource.as_ref(), false), d.index as i64),
      Event::WriteEnd(d) => ("write_end", key_id(d.resource.as_ref(), false), d.index as i64),
      Event::ExecuteStart(d) => ("exec_start", key_id(d.task.as_ref(), true), d.index as i64),
      Event::ExecuteEnd(d) => ("exec_end", key_id(d.task.as_ref(), true), d.index as i64),
    };
    let mt: Vec<Vec<i64>> = (1..=scn.nt as i64).map(|t| with_task_key(scn, t, |key| vec![
      b(e.match_require_start(key).is_some()), b(e.match_require_end(key).is_some()), b(e.is_execute_of(key)),
      b(e.match_execute_start(key).is_some()), b(e.match_execute_end(key).is_some())])).collect();
    let mr: Vec<Vec<i64>> = (1..=scn.nr as i64).map(|r| with_res_key(scn, r, |key| vec![
      b(e.match_read_start(key).is_some()), b(e.match_read_end(key).is_some()),
      b(e.match_write_start(key).is_some()), b(e.match_write_end(key).is_some())])).collect();
    evs.push(json!({"k":k,"x":x,"i":i,"h":[b(e.is_build_start()), b(e.is_build_end()), b(e.is_execute())],"mt":mt,"mr":mr}));
  }
  let idx = |o: Option<&usize>| -> i64 { o.map(|i| *i as i64).unwrap_or(-1) };
  let rng = |o: Option<std::ops::RangeInclusive<usize>>| -> Vec<i64> { o.map(|r| vec![*r.start() as i64, *r.end() as i64]).unwrap_or(vec![-1, -1]) };
  let qt: Vec<Value> = (1..=scn.nt as i64).map(|t| with_task_key(scn, t, |key| json!({
    "any": b(et.any_execute_of(key)), "one": b(et.one_execute_of(key)), "req": rng(et.first_require_range(key)),
    "exe": rng(et.first_execute_range(key)), "exe_end": idx(et.first_execute_end_index(key))}))).collect();
  let qr: Vec<Value> = (1..=scn.nr as i64).map(|r| with_res_key(scn, r, |key| json!({
    "rd": rng(et.first_read_range(key)), "rd_end": idx(et.first_read_end_index(key)),
    "wr": rng(et.first_write_range(key)), "wr_end": idx(et.first_write_end_index(key))}))).collect();
  json!({"evs":evs,"any_execute":b(et.any_execute()),"qt":qt,"qr":qr})
}

fn run_session(pie: &mut Pie<Trk>, scn: &Scenario, acts: &[Act], probe: bool) {
  emit(json!({"ev":"sess_start","probe":probe}));
  let mut nerr: i64 = -1;
  {
    let mut session = pie.new_session();
    let mut aborted = false;
    for act in acts {
      // a retrying caller keeps the session after a caught panic, for further top-down builds only
      if aborted && !matches!(act, Act::Req { .. }) { break; }
      match act {
        Act::Req { t } => {
          emit(json!({"ev":"root_call","t":t}));
          let r = catch_unwind(AssertUnwindSafe(|| require_abs(&mut SessReq(&mut session), scn, *t, "any")));
          match r {
            Ok(o) => emit(json!({"ev":"root_ret","t":t,"o":enc_out(&o)})),
            Err(p) => {
              let (kind, msg) = panic_kind(&p);
              world::with(|w| w.depth = 0);
              emit(json!({"ev":"root_panic","t":t,"kind":kind,"msg":msg}));
              if !scn.retry { break; }
              aborted = true;
            }
          }
        }
        Act::Set { r, v } => {
          // only file resources can change while a session borrows the Pie instance
          let (ty, num) = (scn.rtype[(*r - 1) as usize], scn.rnum[(*r - 1) as usize]);
          if ty == 3 { file_set(num, *v); emit(json!({"ev":"ext_set","r":r,"v":v})); }
        }
        Act::Bu { changed } => {
          emit(json!({"ev":"bu_begin"}));
          let r = catch_unwind(AssertUnwindSafe(|| {
            let mut bu = session.create_bottom_up_build();
            for r in changed {
              emit(json!({"ev":"bu_sched","r":r}));
              schedule(&mut bu, scn, *r);
            }
            emit(json!({"ev":"bu_run"}));
            bu.update_affected_tasks();
          }));
          match r {
            Ok(()) => emit(json!({"ev":"bu_ret"})),
            Err(p) => {
              let (kind, msg) = panic_kind(&p);
              world::with(|w| w.depth = 0);
              emit(json!({"ev":"bu_panic","kind":kind,"msg":msg}));
              break;
            }
          }
        }
      }
    }
    if let Ok(n) = catch_unwind(AssertUnwindSafe(|| session.dependency_check_errors().len() as i64)) { nerr = n; }
  }
  let res: Vec<i64> = (1..=scn.nr as i64).map(|r| get_res(pie, scn, r)).collect();
  // the dump walks all three encodings of the edge set; if they disagree the library's own accessors panic
  let dump = match catch_unwind(AssertUnwindSafe(|| dump_store(pie))) {
    Ok(d) => d,
    Err(_) => json!({"tasks":[],"ress":[],"ranks":[],"failed":true}),
  };
  let (d, c) = world::with(|w| (w.digest, w.count));
  let evt = dump_event_tracker(&pie.tracker().1 .0, scn);
  let ranks = dump["ranks"].clone();
  emit(json!({"ev":"sess_end","errs":nerr,"res":res,"ranks":ranks,"dump":dump,"evt":evt,
    "trk_same": d[0] == d[1] && c[0] == c[1], "trk_n1": c[0], "trk_n2": c[1]}));
}

/// Executes one scenario on a fresh Pie instance; returns the recorded NDJSON lines (first line is the `reset` event).
pub fn run_scenario(scn: &Scenario) -> Vec<String> {
  let scn_rc = Rc::new(scn.clone());
  world::install(scn_rc.clone());
  let scn = &*scn_rc;
  emit(json!({"ev":"reset","scn":serde_json::to_value(scn).unwrap()}));
  if scn.rtype.iter().any(|t| *t == 3) {
    // a directory for the file resources of this run, and the content hash stamp of every possible value
    use pie::resource::file::hash_checker::HashChecker;
    use pie::ResourceChecker;
    static COUNTER: std::sync::atomic::AtomicUsize = std::sync::atomic::AtomicUsize::new(0);
    let n = COUNTER.fetch_add(1, std::sync::atomic::Ordering::SeqCst);
    // by default next to the harness binaries (under /verif/work), never under /tmp
    let base = std::env::current_exe().ok().and_then(|p| p.parent().map(|d| d.to_path_buf())).unwrap_or_else(|| std::path::PathBuf::from("."));
    let dir = base.join("files_run").join(format!("run_{}_{}", std::process::id(), n));
    let dir = std::env::var("VERIF_FILES_DIR").map(|d| std::path::PathBuf::from(d).join(format!("run_{}_{}", std::process::id(), n))).unwrap_or(dir);
    let _ = std::fs::remove_dir_all(&dir);
    std::fs::create_dir_all(&dir).expect("harness: create file resource dir");
    world::with(|w| w.file_dir = dir.clone());
    let mut tmp: Pie<()> = Pie::default();
    let mut names = std::collections::HashMap::new();
    for v in 0..scn.nv {
      file_set(9999, v);
      let st = HashChecker.stamp(&file_path(9999), tmp.resource_state_mut::<std::path::PathBuf>()).expect("harness: hash stamp");
      names.insert(format!("{:?}", st), v);
    }
    file_set(9999, ABSENT);
    world::with(|w| w.hash_names = names);
  }
  let tracker = CompositeTracker(Recorder { which: 0 }, CompositeTracker(EventTracker::default(), Recorder { which: 1 }));
  let mut pie = Pie::with_tracker(tracker);
  for r in 1..=scn.nr as i64 {
    set_res(&mut pie, scn, r, scn.init[(r - 1) as usize]);
  }
  for step in scn.hist.iter() {
    match step {
      Step::Session { acts } => run_session(&mut pie, scn, acts, false),
      Step::Probe { rev } => {
        let mut known = world::with(|w| w.known.clone());
        if *rev { known.reverse(); }
        let acts: Vec<Act> = known.into_iter().map(|t| Act::Req { t }).collect();
        run_session(&mut pie, scn, &acts, true);
      }
      Step::Set { r, v } => {
        set_res(&mut pie, scn, *r, *v);
        emit(json!({"ev":"ext_set","r":r,"v":v}));
      }
      Step::Fault { r, on } => {
        world::with(|w| if *on { w.fault.insert(*r); } else { w.fault.remove(r); });
        emit(json!({"ev":"fault","r":r,"on":on}));
      }
      Step::Boom { t, pc } => {
        world::with(|w| w.boom = Some((*t, *pc)));
        emit(json!({"ev":"boom_arm","t":t,"pc":pc}));
      }
      Step::BoomClr {} => {
        world::with(|w| w.boom = None);
        emit(json!({"ev":"boom_clr"}));
      }
    }
  }
  emit(json!({"ev":"end"}));
  let dir = world::with(|w| w.file_dir.clone());
  if dir.as_os_str().len() > 0 { let _ = std::fs::remove_dir_all(&dir); }
  world::take_lines()
}
