pub fn run() -> Vec<String> { Vec::new() }
