//! C15: equality, hashing and hash-map lookup of `&dyn KeyObj` across families of types with identical representation.
use std::collections::hash_map::DefaultHasher;
use std::collections::HashMap;
use std::hash::{Hash, Hasher};
use std::rc::Rc;
use std::sync::Arc;

use serde_json::json;

use pie::trait_object::KeyObj;

use crate::types::{Res, Tk, ZA, ZB};

#[derive(Clone, Copy, PartialEq, Eq, Hash, Debug)]
struct NewU(u32);
#[derive(Clone, Copy, PartialEq, Eq, Hash, Debug)]
struct ZC;

fn h(k: &dyn KeyObj) -> u64 { let mut s = DefaultHasher::new(); k.hash(&mut s); s.finish() }

pub fn run() -> Vec<String> {
  let mut keys: Vec<(String, u32, Box<dyn KeyObj>)> = Vec::new();
  for v in 1..=2u32 {
    keys.push(("TA".into(), v, Box::new(Tk::<0>(v))));
    keys.push(("TB".into(), v, Box::new(Tk::<1>(v))));
    keys.push(("BoxTA".into(), v, Box::new(Box::new(Tk::<0>(v)))));
    keys.push(("RcTA".into(), v, Box::new(Rc::new(Tk::<0>(v)))));
    keys.push(("ArcTA".into(), v, Box::new(Arc::new(Tk::<0>(v)))));
    keys.push(("VRes".into(), v, Box::new(Res::<0>(v))));
    keys.push(("WRes".into(), v, Box::new(Res::<1>(v))));
    keys.push(("u32".into(), v, Box::new(v)));
    keys.push(("NewU".into(), v, Box::new(NewU(v))));
    keys.push(("tuple".into(), v, Box::new((v,))));
    // equal keys constructed a second time
    keys.push(("TA".into(), v, Box::new(Tk::<0>(v))));
  }
  keys.push(("ZA".into(), 0, Box::new(ZA)));
  keys.push(("ZB".into(), 0, Box::new(ZB)));
  keys.push(("ZC".into(), 0, Box::new(ZC)));
  keys.push(("unit".into(), 0, Box::new(())));
  keys.push(("ZA".into(), 0, Box::new(ZA)));
  let mut lines = Vec::new();
  lines.push(json!({"ev":"reset","suite":"keys"}).to_string());
  for (i, (ty, v, _)) in keys.iter().enumerate() { lines.push(json!({"ev":"keydef","i":i + 1,"ty":ty,"v":v}).to_string()); }
  for (i, (_, _, a)) in keys.iter().enumerate() {
    for (j, (_, _, b)) in keys.iter().enumerate() {
      let eq = a.as_ref() == b.as_ref();
      let eq_box = *a == *b.as_ref();
      lines.push(json!({"ev":"keycmp","a":i + 1,"b":j + 1,"eq":eq,"eq_box":eq_box,"hash_eq":h(a.as_ref()) == h(b.as_ref())}).to_string());
    }
  }
  // hash-map lookup by trait object: every key finds the first inserted key equal to it
  let mut map: HashMap<Box<dyn KeyObj>, usize> = HashMap::new();
  for (i, (_, _, k)) in keys.iter().enumerate() { map.entry(k.clone()).or_insert(i + 1); }
  for (i, (_, _, k)) in keys.iter().enumerate() {
    lines.push(json!({"ev":"keymap","a":i + 1,"found":map.get(k.as_ref()).copied().unwrap_or(0),"size":map.len()}).to_string());
  }
  lines.push(json!({"ev":"end"}).to_string());
  lines
}
