//! C14: typed resource state (TypeToAnyMap through the ResourceState trait) and the in-memory map resource on top of it.
//! Random operation sequences over three resource types and four state types; every returned value is logged.
use std::collections::hash_map::Entry;
use std::collections::HashMap;

use rand::rngs::StdRng;
use rand::{Rng, SeedableRng};
use serde_json::{json, Value};

use pie::resource::map::{GetGlobalMap, MapEqualsChecker, MapKey};
use pie::{Pie, Resource, ResourceChecker, ResourceState};

use crate::types::Res;

#[derive(Clone, Copy, PartialEq, Eq, Hash, Debug)]
pub struct KA(pub u32);
#[derive(Clone, Copy, PartialEq, Eq, Hash, Debug)]
pub struct KB(pub u32);
impl MapKey for KA { type Value = i64; }
impl MapKey for KB { type Value = i64; }

/// A state type with the same representation as i64.
#[derive(Clone, Copy, PartialEq, Eq, Debug, Default)]
pub struct TI(pub i64);

type MA = HashMap<KA, i64>;
type MB = HashMap<KB, i64>;

fn map_a(m: &MA) -> Value { let mut v: Vec<(u32, i64)> = m.iter().map(|(k, v)| (k.0, *v)).collect(); v.sort(); json!(v) }
fn map_b(m: &MB) -> Value { let mut v: Vec<(u32, i64)> = m.iter().map(|(k, v)| (k.0, *v)).collect(); v.sort(); json!(v) }

/// Typed state operations for one (resource type, state type) pair.
fn typed<R: Resource>(pie: &mut Pie<()>, op: &str, s: &str, v: i64) -> Value {
  let st = pie.resource_state_mut::<R>();
  match (op, s) {
    ("sget", "i") => json!(st.get::<i64>().copied().unwrap_or(-1)),
    ("sget", "t") => json!(st.get::<TI>().map(|t| t.0).unwrap_or(-1)),
    ("sget", "ma") => st.get::<MA>().map(map_a).unwrap_or(json!(-1)),
    ("sget", "mb") => st.get::<MB>().map(map_b).unwrap_or(json!(-1)),
    ("sset", "i") => { st.set::<i64>(v); json!(0) }
    ("sset", "t") => { st.set::<TI>(TI(v)); json!(0) }
    ("sset", "ma") => { let mut m = MA::new(); m.insert(KA(1), v); st.set::<MA>(m); json!(0) }
    ("sset", "mb") => { let mut m = MB::new(); m.insert(KB(1), v); st.set::<MB>(m); json!(0) }
    ("sbset", "i") => { st.set_boxed(Box::new(v)); json!(0) }
    ("sbset", "t") => { st.set_boxed(Box::new(TI(v))); json!(0) }
    ("sbset", "ma") => { let mut m = MA::new(); m.insert(KA(1), v); st.set_boxed(Box::new(m)); json!(0) }
    ("sbset", "mb") => { let mut m = MB::new(); m.insert(KB(1), v); st.set_boxed(Box::new(m)); json!(0) }
    ("sdef", "i") => json!(*st.get_or_set_default::<i64>()),
    ("sdef", "t") => json!(st.get_or_set_default::<TI>().0),
    ("sdef", "ma") => map_a(st.get_or_set_default::<MA>()),
    ("sdef", "mb") => map_b(st.get_or_set_default::<MB>()),
    ("sdefmut", "i") => { let r = st.get_or_set_default_mut::<i64>(); let old = *r; *r = v; json!(old) }
    ("sdefmut", "t") => { let r = st.get_or_set_default_mut::<TI>(); let old = r.0; r.0 = v; json!(old) }
    ("sdefmut", "ma") => { let r = st.get_or_set_default_mut::<MA>(); let old = map_a(r); r.insert(KA(1), v); old }
    ("sdefmut", "mb") => { let r = st.get_or_set_default_mut::<MB>(); let old = map_b(r); r.insert(KB(1), v); old }
    ("smut", "i") => match st.get_mut::<i64>() { Some(r) => { *r = v; json!(1) } None => json!(0) },
    ("smut", "t") => match st.get_mut::<TI>() { Some(r) => { r.0 = v; json!(1) } None => json!(0) },
    ("smut", "ma") => match st.get_mut::<MA>() { Some(r) => { r.insert(KA(1), v); json!(1) } None => json!(0) },
    ("smut", "mb") => match st.get_mut::<MB>() { Some(r) => { r.insert(KB(1), v); json!(1) } None => json!(0) },
    ("sbox", _) => {
      let tag = match st.get_boxed() {
        None => "none",
        Some(b) => if b.is::<i64>() { "i" } else if b.is::<TI>() { "t" } else if b.is::<MA>() { "ma" } else if b.is::<MB>() { "mb" } else { "?" },
      };
      let tag_mut = match st.get_boxed_mut() {
        None => "none",
        Some(b) => if b.is::<i64>() { "i" } else if b.is::<TI>() { "t" } else if b.is::<MA>() { "ma" } else if b.is::<MB>() { "mb" } else { "?" },
      };
      json!([tag, tag_mut])
    }
    _ => panic!("harness: unknown typed op {} {}", op, s),
  }
}

macro_rules! map_ops {
  ($name:ident, $K:ident) => {
    fn $name(pie: &mut Pie<()>, op: &str, k: u32, v: i64, s: i64) -> Value {
      let key = $K(k);
      let st = pie.resource_state_mut::<$K>();
      let enc = |o: Option<&i64>| -> i64 { o.copied().unwrap_or(-1) };
      match op {
        "mread" => json!(enc(key.read(st).unwrap())),
        "minsert" => { let mut w = key.write(st).unwrap(); json!(w.insert(v).unwrap_or(-1)) }
        "mremove" => { let mut w = key.write(st).unwrap(); match w.entry() { Entry::Occupied(e) => json!(e.remove()), Entry::Vacant(_) => json!(-1) } }
        "mentry_or" => { let mut w = key.write(st).unwrap(); json!(*w.entry().or_insert(v)) }
        "mgetmut" => { let mut w = key.write(st).unwrap(); match w.get_mut() { Some(r) => { let old = *r; *r = v; json!(old) } None => json!(-1) } }
        "mwget" => { let w = key.write(st).unwrap(); json!(enc(w.get())) }
        "gmap" => { let m = st.get_global_map(); let mut x: Vec<(u32, i64)> = m.iter().map(|(k, v)| (k.0, *v)).collect(); x.sort(); json!(x) }
        "gmapmut" => { let m = st.get_global_map_mut(); m.insert(key, v); json!(0) }
        "mstamp_path" => json!(MapEqualsChecker.stamp(&key, st).unwrap().unwrap_or(-1)),
        "mstamp_reader" => { let mut r = key.read(st).unwrap(); let s = MapEqualsChecker.stamp_reader(&key, &mut r).unwrap().unwrap_or(-1); json!([s, enc(r)]) }
        "mstamp_writer" => { let mut w = key.write(st).unwrap(); if v >= 0 { w.insert(v); } json!(MapEqualsChecker.stamp_writer(&key, w).unwrap().unwrap_or(-1)) }
        "mcheck" => { let stamp = if s < 0 { None } else { Some(s) }; let inc = MapEqualsChecker.check(&key, st, &stamp).unwrap().is_some(); json!(inc) }
        _ => panic!("harness: unknown map op {}", op),
      }
    }
  };
}
map_ops!(map_a_ops, KA);
map_ops!(map_b_ops, KB);

/// Renders a result in the syntax of TLA+ values (TLC's ToString), so that the trace spec compares strings only.
fn tla(v: &Value) -> String {
  match v {
    Value::Number(n) => n.to_string(),
    Value::String(s) => format!("\"{}\"", s),
    Value::Bool(b) => if *b { "TRUE".into() } else { "FALSE".into() },
    Value::Array(a) => format!("<<{}>>", a.iter().map(tla).collect::<Vec<_>>().join(", ")),
    _ => "?".into(),
  }
}

const TYPED: [&str; 7] = ["sget", "sset", "sbset", "sdef", "sdefmut", "smut", "sbox"];
const MAPOPS: [&str; 12] = ["mread", "minsert", "mremove", "mentry_or", "mgetmut", "mwget", "gmap", "gmapmut", "mstamp_path",
  "mstamp_reader", "mstamp_writer", "mcheck"];
const RES: [&str; 3] = ["KA", "KB", "VR"];
const STY: [&str; 4] = ["i", "t", "ma", "mb"];

pub fn run(seed: u64, n: usize) -> Vec<String> {
  std::panic::set_hook(Box::new(|_| {}));
  let mut lines = Vec::new();
  for idx in 0..n {
    let mut rng = StdRng::seed_from_u64(seed.wrapping_mul(7919).wrapping_add(idx as u64));
    lines.push(json!({"ev":"reset","suite":"map","id":format!("map-{}-{}", seed, idx)}).to_string());
    let mut pie: Pie<()> = Pie::default();
    let len = rng.gen_range(10..40);
    for _ in 0..len {
      if rng.gen_bool(0.45) {
        let op = TYPED[rng.gen_range(0..TYPED.len())];
        let r = RES[rng.gen_range(0..RES.len())];
        let s = STY[rng.gen_range(0..STY.len())];
        let v = rng.gen_range(0..4);
        let res = std::panic::catch_unwind(std::panic::AssertUnwindSafe(|| match r { "KA" => typed::<KA>(&mut pie, op, s, v), "KB" => typed::<KB>(&mut pie, op, s, v), _ => typed::<Res<0>>(&mut pie, op, s, v) }))
          .unwrap_or(json!("PANIC"));
        lines.push(json!({"ev":"typed","op":op,"r":r,"s":s,"v":v,"res":tla(&res)}).to_string());
      } else {
        let op = MAPOPS[rng.gen_range(0..MAPOPS.len())];
        let r = RES[rng.gen_range(0..2)];
        let k = rng.gen_range(1..=2u32);
        let v = rng.gen_range(-1..4i64);
        let v = if op == "mstamp_writer" { v } else { v.max(0) };
        let s = rng.gen_range(-1..4i64);
        let res = std::panic::catch_unwind(std::panic::AssertUnwindSafe(|| if r == "KA" { map_a_ops(&mut pie, op, k, v, s) } else { map_b_ops(&mut pie, op, k, v, s) }))
          .unwrap_or(json!("PANIC"));
        lines.push(json!({"ev":"mapop","op":op,"r":r,"k":k,"v":v,"s":s,"res":tla(&res)}).to_string());
      }
    }
    lines.push(json!({"ev":"end"}).to_string());
  }
  lines
}
