//! C12: every built-in output checker on every pair of outputs, through the trait and through the object-safe proxy.
use std::fmt::Debug;

use serde_json::json;

use pie::task::{AlwaysConsistent, EqualsChecker, ErrEqualsChecker, OkEqualsChecker, ResultChecker};
use pie::verif::OutputCheckerObj;
use pie::OutputChecker;

use crate::model::{dec_out, enc_out};
use crate::types::parse_val;

type Out = Result<i64, i64>;

fn case<C: OutputChecker<Out>>(lines: &mut Vec<String>, name: &str, c: C, o1: &Out, o2: &Out) where C::Stamp: Debug {
  // stamp taken from o2, then o1 checked against it
  let stamp = c.stamp(o2);
  let inc = c.check(o1, &stamp).is_some();
  let obj: &dyn OutputCheckerObj<Out> = &c;
  let stamp_obj = obj.stamp_obj(o2);
  let inc_obj = obj.check_obj(o1, stamp_obj.as_ref()).is_some();
  // the proxy must also accept a stamp produced by the trait
  let inc_mixed = obj.check_obj(o1, &stamp as &dyn pie::trait_object::ValueObj).is_some();
  lines.push(json!({"ev":"chk","c":name,"o1":enc_out(o1),"o2":enc_out(o2),"s":parse_val(&format!("{:?}", stamp)),
    "s_obj":parse_val(&format!("{:?}", stamp_obj)),"inc":inc,"inc_obj":inc_obj,"inc_mixed":inc_mixed}).to_string());
}

fn scalar<O: pie::Value + Eq>(lines: &mut Vec<String>, ty: &str, vals: &[O]) {
  for (i, a) in vals.iter().enumerate() {
    for (j, b) in vals.iter().enumerate() {
      let s = OutputChecker::<O>::stamp(&EqualsChecker, b);
      let inc = OutputChecker::<O>::check(&EqualsChecker, a, &s).is_some();
      let s2 = OutputChecker::<O>::stamp(&AlwaysConsistent, b);
      let inc2 = OutputChecker::<O>::check(&AlwaysConsistent, a, &s2).is_some();
      lines.push(json!({"ev":"chk_scalar","ty":ty,"i":i,"j":j,"inc_eq":inc,"inc_any":inc2}).to_string());
    }
  }
}

pub fn run() -> Vec<String> {
  let mut lines = Vec::new();
  lines.push(json!({"ev":"reset","suite":"checkers"}).to_string());
  let outs: Vec<Out> = (0..8).map(dec_out).collect();
  for o1 in outs.iter() {
    for o2 in outs.iter() {
      case(&mut lines, "eq", EqualsChecker, o1, o2);
      case(&mut lines, "okeq", OkEqualsChecker, o1, o2);
      case(&mut lines, "erreq", ErrEqualsChecker, o1, o2);
      case(&mut lines, "res", ResultChecker, o1, o2);
      case(&mut lines, "any", AlwaysConsistent, o1, o2);
    }
  }
  scalar(&mut lines, "i64", &[0i64, 1, -1, i64::MAX]);
  scalar(&mut lines, "string", &["".to_string(), "a".to_string(), "ab".to_string(), "A".to_string()]);
  scalar(&mut lines, "unit", &[()]);
  lines.push(json!({"ev":"end"}).to_string());
  lines
}
