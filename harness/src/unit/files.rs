//! C13: the filesystem resource and its three checkers on real temporary files with explicitly set modification times.
//! Random walks over the states of one path (absent / file of a given content / directory with a given listing); after
//! every step stamps are taken through all three routes and earlier stamps are checked against the current state.
use std::collections::HashMap;
use std::fs::{self, File};
use std::io::{Read, Write};
use std::path::PathBuf;
use std::time::{Duration, SystemTime, UNIX_EPOCH};

use rand::rngs::StdRng;
use rand::{Rng, SeedableRng};
use serde_json::{json, Value};

use pie::resource::file::hash_checker::HashChecker;
use pie::resource::file::{ExistsChecker, ModifiedChecker};
use pie::{Pie, Resource, ResourceChecker};

const SIZES: [usize; 12] = [0, 1, 3, 4, 100, 8191, 8192, 8193, 8194, 16384, 16385, 20000];
const NAMES: [&str; 8] = ["a", "b", "ab", "bc", "abc", "c", "caf\u{e9}", "caf\u{e8}"];

/// the directory entry for a name of the universe; the last two names are written as single non-UTF-8 bytes
/// (Latin-1 e-acute / e-grave), which differ only in a byte that is not valid UTF-8
fn entry(dir: &PathBuf, nm: &str) -> PathBuf {
  use std::os::unix::ffi::OsStrExt;
  let bytes: Vec<u8> = nm.chars().map(|c| c as u32 as u8).collect();
  dir.join(std::ffi::OsStr::from_bytes(&bytes))
}

fn content(kind: u8, size: usize) -> Vec<u8> {
  match kind {
    0 => vec![b'a'; size],
    1 => vec![0u8; size],
    _ => (0..size).map(|i| ((i * 7 + 13) % 251) as u8).collect(),
  }
}

fn set_mtime(path: &PathBuf, t: u64) {
  let f = File::open(path).expect("harness: open for set_modified");
  f.set_modified(UNIX_EPOCH + Duration::from_secs(1_000_000 + t)).expect("harness: set_modified");
}

fn mtime_val(t: &Option<SystemTime>) -> i64 {
  match t {
    None => -1,
    Some(t) => match t.duration_since(UNIX_EPOCH) {
      Ok(d) => if d.subsec_nanos() == 0 && d.as_secs() >= 1_000_000 && d.as_secs() < 2_000_000 { (d.as_secs() - 1_000_000) as i64 } else { 999_999 },
      Err(_) => 999_998,
    },
  }
}

struct Ids { map: HashMap<[u8; 32], i64> }
impl Ids {
  fn id(&mut self, h: &Option<[u8; 32]>) -> i64 {
    match h { None => -1, Some(h) => { let n = self.map.len() as i64; *self.map.entry(*h).or_insert(n) } }
  }
}

/// stamps through the path route and the fresh-reader route; for files also reads everything through the stamped reader
fn observe(pie: &mut Pie<()>, path: &PathBuf, ids: &mut Ids, expect: &Option<Vec<u8>>) -> Value {
  let st = pie.resource_state_mut::<PathBuf>();
  let e_path = ExistsChecker.stamp(path, st).map(|b| b as i64).unwrap_or(-9);
  let m_path = ModifiedChecker.stamp(path, st).map(|t| mtime_val(&t)).unwrap_or(-9);
  let h_path = HashChecker.stamp(path, st).map(|h| ids.id(&h)).unwrap_or(-9);
  let mut out = json!({"e_path": e_path, "m_path": m_path, "h_path": h_path});
  for (name, which) in [("e_reader", 0), ("m_reader", 1), ("h_reader", 2)] {
    let mut reader = match path.read(st) { Ok(r) => r, Err(_) => { out[name] = json!(-9); continue; } };
    let v = match which {
      0 => ExistsChecker.stamp_reader(path, &mut reader).map(|b| b as i64).unwrap_or(-9),
      1 => ModifiedChecker.stamp_reader(path, &mut reader).map(|t| mtime_val(&t)).unwrap_or(-9),
      _ => HashChecker.stamp_reader(path, &mut reader).map(|h| ids.id(&h)).unwrap_or(-9),
    };
    out[name] = json!(v);
    // the task reads through the very reader that was stamped: it must see the full content
    let key = format!("{}_read", name);
    match (reader.as_file(), expect) {
      (Some(f), Some(exp)) => { let mut buf = Vec::new(); let ok = f.read_to_end(&mut buf).is_ok() && buf == *exp; out[key] = json!(if ok { 1 } else { 0 }); }
      (None, None) => { out[key] = json!(1); }
      _ => { out[key] = json!(0); }
    }
    out[format!("{}_kind", name)] = json!(if reader.is_file() { "file" } else if reader.is_directory() { "dir" } else { "absent" });
  }
  out
}

pub fn run(seed: u64, n: usize, dir: &str) -> Vec<String> {
  let root = PathBuf::from(dir);
  let _ = fs::remove_dir_all(&root);
  fs::create_dir_all(&root).expect("harness: create work dir");
  let mut lines = Vec::new();
  sweep(&root, &mut lines);
  for idx in 0..n {
    let mut rng = StdRng::seed_from_u64(seed.wrapping_mul(104729).wrapping_add(idx as u64));
    let path = root.join(format!("p{}", idx));
    let mut pie: Pie<()> = Pie::default();
    let mut ids = Ids { map: HashMap::new() };
    lines.push(json!({"ev":"reset","suite":"files","id":format!("files-{}-{}", seed, idx)}).to_string());
    // model of what is on disk (kept only to drive the walk and to know the expected content)
    let mut kind = "absent"; let mut cont: Option<Vec<u8>> = None; let mut names: Vec<&str> = Vec::new();
    let mut taken: Vec<(i64, bool, Option<SystemTime>, Option<[u8; 32]>)> = Vec::new();
    let steps = rng.gen_range(6..16);
    for _ in 0..steps {
      let t: u64 = rng.gen_range(1..50);
      // ---- one environment action
      let roll = rng.gen_range(0..100);
      let mut ev = json!({"ev":"fs"});
      if kind == "absent" {
        if roll < 60 {
          let (k, s) = (rng.gen_range(0..3u8), SIZES[rng.gen_range(0..SIZES.len())]);
          let c = content(k, s); fs::write(&path, &c).unwrap(); set_mtime(&path, t);
          kind = "file"; cont = Some(c); ev["act"] = json!("write"); ev["k"] = json!(if s == 0 { 0 } else { k }); ev["size"] = json!(s); ev["mt"] = json!(t);
        } else if roll < 85 {
          fs::create_dir(&path).unwrap(); set_mtime(&path, t); kind = "dir"; names.clear(); ev["act"] = json!("mkdir"); ev["mt"] = json!(t);
        } else {
          // open for writing through the resource: creates the file; the writer is stamped by all three checkers
          ev = writer_route(&mut pie, &path, &mut ids, &mut rng, t, false);
          kind = "file"; cont = Some(content(ev["k"].as_u64().unwrap() as u8, ev["size"].as_u64().unwrap() as usize));
          if ev["removed"].as_bool().unwrap() { kind = "absent"; cont = None; }
        }
      } else if kind == "file" {
        if roll < 35 {
          let (k, s) = (rng.gen_range(0..3u8), SIZES[rng.gen_range(0..SIZES.len())]);
          let c = content(k, s); fs::write(&path, &c).unwrap(); set_mtime(&path, t);
          cont = Some(c); ev["act"] = json!("write"); ev["k"] = json!(if s == 0 { 0 } else { k }); ev["size"] = json!(s); ev["mt"] = json!(t);
        } else if roll < 50 {
          set_mtime(&path, t); ev["act"] = json!("touch"); ev["mt"] = json!(t);
        } else if roll < 70 {
          fs::remove_file(&path).unwrap(); kind = "absent"; cont = None; ev["act"] = json!("remove");
        } else if roll < 80 {
          ev["act"] = json!("none");
        } else {
          ev = writer_route(&mut pie, &path, &mut ids, &mut rng, t, true);
          cont = Some(content(ev["k"].as_u64().unwrap() as u8, ev["size"].as_u64().unwrap() as usize));
          if ev["removed"].as_bool().unwrap() { kind = "absent"; cont = None; }
        }
      } else {
        if roll < 40 {
          let nm = NAMES[rng.gen_range(0..NAMES.len())];
          if !names.contains(&nm) { fs::write(entry(&path, nm), b"x").unwrap(); names.push(nm); }
          set_mtime(&path, t); ev["act"] = json!("add_entry"); ev["name"] = json!(nm); ev["mt"] = json!(t);
        } else if roll < 60 && !names.is_empty() {
          let i = rng.gen_range(0..names.len()); let nm = names.remove(i);
          fs::remove_file(entry(&path, nm)).unwrap(); set_mtime(&path, t); ev["act"] = json!("remove_entry"); ev["name"] = json!(nm); ev["mt"] = json!(t);
        } else if roll < 72 {
          set_mtime(&path, t); ev["act"] = json!("touch"); ev["mt"] = json!(t);
        } else if roll < 88 {
          fs::remove_dir_all(&path).unwrap(); kind = "absent"; names.clear(); ev["act"] = json!("remove");
        } else if roll < 94 {
          ev["act"] = json!("none");
        } else {
          // opening a directory for writing must be refused and must not touch it
          let st = pie.resource_state_mut::<PathBuf>();
          let refused = path.write(st).is_err();
          ev["act"] = json!("open_write_dir"); ev["refused"] = json!(refused);
        }
      }
      lines.push(ev.to_string());
      // ---- stamps through the routes
      let obs = observe(&mut pie, &path, &mut ids, &cont);
      let sid = taken.len() as i64;
      {
        let st = pie.resource_state_mut::<PathBuf>();
        taken.push((sid, ExistsChecker.stamp(&path, st).unwrap_or(false), ModifiedChecker.stamp(&path, st).unwrap_or(None), HashChecker.stamp(&path, st).unwrap_or(None)));
      }
      lines.push(json!({"ev":"stamps","sid":sid,"obs":obs}).to_string());
      // ---- earlier stamps checked against the current state
      for _ in 0..2 {
        let (sid, e, m, h) = taken[rng.gen_range(0..taken.len())].clone();
        let st = pie.resource_state_mut::<PathBuf>();
        let re = ExistsChecker.check(&path, st, &e).map(|o| o.is_some() as i64).unwrap_or(-9);
        let rm = ModifiedChecker.check(&path, st, &m).map(|o| o.is_some() as i64).unwrap_or(-9);
        let rh = HashChecker.check(&path, st, &h).map(|o| o.is_some() as i64).unwrap_or(-9);
        lines.push(json!({"ev":"fcheck","sid":sid,"e":re,"m":rm,"h":rh}).to_string());
      }
    }
    let _ = fs::remove_dir_all(&path);
    let _ = fs::remove_file(&path);
    lines.push(json!({"ev":"end"}).to_string());
  }
  let _ = fs::remove_dir_all(&root);
  lines
}

/// Opens the path for writing through the resource, writes a content through the writer, optionally removes the file,
/// and stamps the just-used writer with all three checkers; compares with the path route taken immediately afterwards.
fn writer_route(pie: &mut Pie<()>, path: &PathBuf, ids: &mut Ids, rng: &mut StdRng, t: u64, existed: bool) -> Value {
  let (k, s) = (rng.gen_range(0..3u8), SIZES[rng.gen_range(0..SIZES.len())]);
  let c = content(k, s);
  let remove = rng.gen_bool(0.15);
  let mut res = json!({"ev":"fs","act":"writer","k": if s == 0 { 0 } else { k },"size":s,"mt":t,"existed":existed,"removed":remove});
  let mut stamps = Vec::new();
  for which in 0..3 {
    let st = pie.resource_state_mut::<PathBuf>();
    let mut w = match path.write(st) { Ok(w) => w, Err(_) => { res["open_failed"] = json!(true); return res; } };
    // "creates or truncates": right after opening, the file exists and is empty
    let len0 = fs::metadata(path).map(|m| m.len() as i64).unwrap_or(-1);
    w.write_all(&c).unwrap(); w.flush().unwrap();
    if remove { fs::remove_file(path).unwrap(); }
    let (sw, sp) = match which {
      0 => (ExistsChecker.stamp_writer(path, w).map(|b| b as i64).unwrap_or(-9), ExistsChecker.stamp(path, st).map(|b| b as i64).unwrap_or(-9)),
      1 => {
        let a = ModifiedChecker.stamp_writer(path, w).unwrap_or(None); let b = ModifiedChecker.stamp(path, st).unwrap_or(None);
        // modification time is "now" here: only agreement of the routes is observable
        (if a == b { 1 } else { 0 }, 1)
      }
      _ => (HashChecker.stamp_writer(path, w).map(|h| ids.id(&h)).unwrap_or(-9), HashChecker.stamp(path, st).map(|h| ids.id(&h)).unwrap_or(-9)),
    };
    stamps.push(json!([sw, sp, len0]));
  }
  if !remove { set_mtime(path, t); }
  res["wstamps"] = json!(stamps);
  res
}


/// Exhaustive sweeps: every file content of the content universe and every directory listing over the name universe is
/// stamped once within one run, so that the specification sees every pair of different contents / listings.
fn sweep(root: &PathBuf, lines: &mut Vec<String>) {
  let mut pie: Pie<()> = Pie::default();
  let mut ids = Ids { map: HashMap::new() };
  let path = root.join("sweep");
  lines.push(json!({"ev":"reset","suite":"files","id":"files-sweep"}).to_string());
  let mut sid = 0;
  for k in 0..3u8 {
    for s in SIZES.iter() {
      if *s == 0 && k > 0 { continue; }
      let c = content(k, *s);
      fs::write(&path, &c).unwrap(); set_mtime(&path, 7);
      lines.push(json!({"ev":"fs","act":"write","k":k,"size":s,"mt":7}).to_string());
      let obs = observe(&mut pie, &path, &mut ids, &Some(c));
      lines.push(json!({"ev":"stamps","sid":sid,"obs":obs}).to_string());
      sid += 1;
    }
  }
  fs::remove_file(&path).unwrap();
  lines.push(json!({"ev":"fs","act":"remove"}).to_string());
  fs::create_dir(&path).unwrap(); set_mtime(&path, 7);
  lines.push(json!({"ev":"fs","act":"mkdir","mt":7}).to_string());
  let mut present: Vec<bool> = vec![false; NAMES.len()];
  // Gray-code walk over all subsets of the name universe: one entry added or removed per step
  for g in 1..(1u32 << NAMES.len()) {
    let bit = g.trailing_zeros() as usize;
    let nm = NAMES[bit];
    if present[bit] { fs::remove_file(entry(&path, nm)).unwrap(); present[bit] = false; lines.push(json!({"ev":"fs","act":"remove_entry","name":nm,"mt":7}).to_string()); }
    else { fs::write(entry(&path, nm), b"x").unwrap(); present[bit] = true; lines.push(json!({"ev":"fs","act":"add_entry","name":nm,"mt":7}).to_string()); }
    set_mtime(&path, 7);
    let obs = observe(&mut pie, &path, &mut ids, &None);
    lines.push(json!({"ev":"stamps","sid":sid,"obs":obs}).to_string());
    sid += 1;
  }
  let _ = fs::remove_dir_all(&path);
  lines.push(json!({"ev":"end"}).to_string());
}
