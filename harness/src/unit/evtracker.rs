pub fn run(_seed: u64, _n: usize) -> Vec<String> { Vec::new() }
