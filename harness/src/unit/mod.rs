pub mod checkers;
pub mod map;
pub mod files;
pub mod keys;
pub mod evtracker;
