//! Instrumented task, resource and checker types used to interpret abstract programs with the real `pie` library.
use std::any::TypeId;
use std::collections::HashMap;
use std::error::Error;
use std::fmt::{self, Debug, Display};
use std::rc::Rc;
use std::sync::Arc;

use serde_json::json;

use pie::task::{AlwaysConsistent, EqualsChecker, ErrEqualsChecker, OkEqualsChecker, ResultChecker};
use pie::{Context, Resource, ResourceChecker, ResourceState, Task};

use crate::model::*;
use crate::world::{self, emit};

// ------------------------------------------------------------------------------------------------ resources

/// In-memory resource. `K` selects one of two resource *types* with identical representation, hash and debug text.
#[derive(Clone, Copy, PartialEq, Eq, Hash)]
pub struct Res<const K: u8>(pub u32);
pub type VRes = Res<0>;
pub type WRes = Res<1>;

impl<const K: u8> Debug for Res<K> {
  fn fmt(&self, f: &mut fmt::Formatter<'_>) -> fmt::Result { write!(f, "Res({})", self.0) }
}

pub type ResMap = HashMap<u32, i64>;

pub fn res_abs_id<const K: u8>(r: &Res<K>) -> i64 {
  world::scn().res_id(K, r.0).unwrap_or(0)
}

pub struct RReader {
  pub inst: i64,
  pub rid: i64,
  pub val: i64,
}
impl RReader {
  /// What the task sees when it reads through this reader.
  pub fn get(&mut self) -> i64 {
    emit(json!({"ev":"rd_use","id":self.inst}));
    self.val
  }
}

pub struct RWriter<'r> {
  pub inst: i64,
  pub rid: i64,
  key: u32,
  map: &'r mut ResMap,
}
impl RWriter<'_> {
  pub fn set(&mut self, v: i64) {
    if v == ABSENT { self.map.remove(&self.key); } else { self.map.insert(self.key, v); }
    emit(json!({"ev":"res_set","r":self.rid,"v":v,"id":self.inst}));
  }
  pub fn get(&self) -> i64 { self.map.get(&self.key).copied().unwrap_or(ABSENT) }
}

#[derive(Debug, Clone, PartialEq, Eq)]
pub struct ChkErr(pub String);
impl Display for ChkErr {
  fn fmt(&self, f: &mut fmt::Formatter<'_>) -> fmt::Result { write!(f, "ChkErr({})", self.0) }
}
impl Error for ChkErr {}

#[derive(Debug)]
pub struct ResErr;
impl Display for ResErr {
  fn fmt(&self, f: &mut fmt::Formatter<'_>) -> fmt::Result { write!(f, "ResErr") }
}
impl Error for ResErr {}

impl<const K: u8> Resource for Res<K> {
  type Reader<'rs> = RReader;
  type Writer<'r> = RWriter<'r>;
  type Error = ResErr;

  fn read<'rs, RS: ResourceState<Self>>(&self, state: &'rs mut RS) -> Result<RReader, ResErr> {
    let map = state.get_or_set_default::<ResMap>();
    let val = map.get(&self.0).copied().unwrap_or(ABSENT);
    let inst = world::next_inst();
    let rid = res_abs_id(self);
    emit(json!({"ev":"rd_open","r":rid,"id":inst,"v":val}));
    Ok(RReader { inst, rid, val })
  }

  fn write<'r, RS: ResourceState<Self>>(&'r self, state: &'r mut RS) -> Result<RWriter<'r>, ResErr> {
    let map = state.get_or_set_default_mut::<ResMap>();
    let inst = world::next_inst();
    let rid = res_abs_id(self);
    emit(json!({"ev":"wr_open","r":rid,"id":inst}));
    Ok(RWriter { inst, rid, key: self.0, map })
  }
}

/// Reads the content of a resource without any instrumentation (used by checkers and the driver).
pub fn peek<const K: u8, RS: ResourceState<Res<K>>>(r: &Res<K>, state: &mut RS) -> i64 {
  state.get_or_set_default::<ResMap>().get(&r.0).copied().unwrap_or(ABSENT)
}

// ------------------------------------------------------------------------------------------------ resource checkers

#[derive(Clone, Copy, PartialEq, Eq, Hash, Debug)]
pub enum RChk { Eq, Ex, Par, Any, EqF, Near }

impl RChk {
  pub fn from_id(c: &str) -> RChk {
    match c {
      "eq" => RChk::Eq, "ex" => RChk::Ex, "par" => RChk::Par, "any" => RChk::Any, "eqF" => RChk::EqF, "near" => RChk::Near,
      _ => panic!("harness: unknown resource checker {}", c),
    }
  }
  pub fn id(&self) -> &'static str {
    match self { RChk::Eq => "eq", RChk::Ex => "ex", RChk::Par => "par", RChk::Any => "any", RChk::EqF => "eqF", RChk::Near => "near" }
  }
}

impl<const K: u8> ResourceChecker<Res<K>> for RChk {
  type Stamp = i64;
  type Error = ChkErr;

  fn stamp<RS: ResourceState<Res<K>>>(&self, resource: &Res<K>, state: &mut RS) -> Result<i64, ChkErr> {
    let s = rstamp(self.id(), peek(resource, state));
    emit(json!({"ev":"stamp","c":self.id(),"r":res_abs_id(resource),"s":s}));
    Ok(s)
  }
  fn stamp_reader(&self, resource: &Res<K>, reader: &mut RReader) -> Result<i64, ChkErr> {
    let s = rstamp(self.id(), reader.val);
    emit(json!({"ev":"stamp_reader","c":self.id(),"r":res_abs_id(resource),"id":reader.inst,"s":s}));
    Ok(s)
  }
  fn stamp_writer(&self, resource: &Res<K>, writer: RWriter<'_>) -> Result<i64, ChkErr> {
    let s = rstamp(self.id(), writer.get());
    emit(json!({"ev":"stamp_writer","c":self.id(),"r":res_abs_id(resource),"id":writer.inst,"s":s}));
    Ok(s)
  }
  #[allow(refining_impl_trait)]
  fn check<RS: ResourceState<Res<K>>>(&self, resource: &Res<K>, state: &mut RS, stamp: &i64) -> Result<Option<i64>, ChkErr> {
    let rid = res_abs_id(resource);
    if *self == RChk::EqF && world::with(|w| w.fault.contains(&rid)) {
      emit(json!({"ev":"check","c":self.id(),"r":rid,"s":stamp,"res":"err"}));
      return Err(ChkErr(format!("fault on resource {}", rid)));
    }
    let cur = rstamp(self.id(), peek(resource, state));
    let inc = rinc(self.id(), peek(resource, state), *stamp);
    emit(json!({"ev":"check","c":self.id(),"r":rid,"s":stamp,"res": if inc { "inc" } else { "ok" }}));
    Ok(if inc { Some(cur) } else { None })
  }
  fn wrap_error(&self, _error: ResErr) -> ChkErr { ChkErr("resource".into()) }
}

// ------------------------------------------------------------------------------------------------ tasks

/// Interpreter task. `K` selects one of two task *types* with identical representation, hash and debug text.
#[derive(Clone, Copy, PartialEq, Eq, Hash)]
pub struct Tk<const K: u8>(pub u32);
pub type TA = Tk<0>;
pub type TB = Tk<1>;

impl<const K: u8> Debug for Tk<K> {
  fn fmt(&self, f: &mut fmt::Formatter<'_>) -> fmt::Result { write!(f, "Tk({})", self.0) }
}

pub type Out = Result<i64, i64>;

impl<const K: u8> Task for Tk<K> {
  type Output = Out;
  fn execute<C: Context>(&self, context: &mut C) -> Out { interp(K, self.0, context) }
}

struct DepthGuard;
impl Drop for DepthGuard {
  fn drop(&mut self) { world::with(|w| w.depth -= 1); }
}

fn interp<C: Context>(k: u8, n: u32, ctx: &mut C) -> Out {
  let scn = world::scn();
  let t = scn.task_id(k, n).expect("harness: task not in scenario");
  let depth = world::with(|w| { w.depth += 1; w.depth });
  let _guard = DepthGuard;
  emit(json!({"ev":"task_enter","t":t}));
  if depth > 4 * scn.nt as i64 + 8 {
    emit(json!({"ev":"diverged","t":t}));
    panic!("diverged: interpreter recursion bound exceeded");
  }
  let mut pc: i64 = 0;
  let mut acc: i64 = 0;
  loop {
    let op = scn.op(t, pc, acc);
    emit(json!({"ev":"op","t":t,"pc":pc,"acc":acc}));
    if world::with(|w| w.boom == Some((t, pc))) {
      panic!("boom: injected task panic");
    }
    match op.k.as_str() {
      "rd" => {
        let chk = RChk::from_id(&op.c);
        let v = read_res(ctx, &scn, op.x, chk);
        acc = mix(acc, robs(&op.c, v), scn.na);
      }
      "rq" => {
        let o = require_task(ctx, &scn, op.x, &op.c);
        acc = mix(acc, oobs(&op.c, enc_out(&o)), scn.na);
      }
      "wr" => {
        let chk = RChk::from_id(&op.c);
        let v = fval(op.f, acc, scn.nv);
        write_res(ctx, &scn, op.x, chk, v, false);
      }
      "wt" => {
        let chk = RChk::from_id(&op.c);
        let v = fval(op.f, acc, scn.nv);
        write_res(ctx, &scn, op.x, chk, v, true);
      }
      "ret" => {
        let o = fval(op.f.max(0), acc, scn.nv);
        emit(json!({"ev":"task_exit","t":t,"o":o}));
        return dec_out(o);
      }
      other => panic!("harness: unknown op {}", other),
    }
    pc += 1;
  }
}

/// The library's own in-memory map resource (`MapKey`), used uninstrumented with the library's `MapEqualsChecker`.
#[derive(Clone, Copy, PartialEq, Eq, Hash, Debug)]
pub struct MK(pub u32);
impl pie::resource::map::MapKey for MK { type Value = i64; }

// ---- the library's filesystem resource (PathBuf) with its own checkers, uninstrumented -----------------------------------
pub fn file_path(num: u32) -> std::path::PathBuf { world::with(|w| w.file_dir.join(format!("r{}", num))) }
/// contents differ in length and carry the value in their last line, so that a file that is not truncated when it is
/// rewritten, or read from the wrong position, yields a wrong value
pub fn file_content(v: i64) -> Vec<u8> { format!("{}value {}\n", "padding line\n".repeat(v.max(0) as usize), v).into_bytes() }
pub fn file_value(bytes: &[u8]) -> i64 {
  String::from_utf8_lossy(bytes).lines().filter(|l| !l.trim().is_empty()).last()
    .and_then(|l| l.trim().strip_prefix("value ").and_then(|s| s.trim().parse().ok())).unwrap_or(-77)
}
pub fn file_get(num: u32) -> i64 { match std::fs::read(file_path(num)) { Ok(b) => file_value(&b), Err(_) => ABSENT } }
pub fn file_set(num: u32, v: i64) {
  let p = file_path(num);
  if v == ABSENT { let _ = std::fs::remove_file(&p); } else { std::fs::write(&p, file_content(v)).expect("harness: write file resource"); }
}

fn read_file_res<C: Context>(ctx: &mut C, num: u32, c: &str) -> i64 {
  use pie::resource::file::hash_checker::HashChecker;
  use pie::resource::file::ExistsChecker;
  use std::io::Read;
  let path = file_path(num);
  let mut open = match c {
    "ex" => ctx.read(&path, ExistsChecker).expect("harness: unexpected file read error"),
    _ => ctx.read(&path, HashChecker).expect("harness: unexpected file read error"),
  };
  match open.as_file() {
    Some(f) => { let mut b = Vec::new(); f.read_to_end(&mut b).expect("harness: read file"); file_value(&b) }
    None => ABSENT,
  }
}

fn write_file_res<C: Context>(ctx: &mut C, r: i64, num: u32, c: &str, v: i64, two_step: bool) {
  use pie::resource::file::hash_checker::HashChecker;
  use pie::resource::file::ExistsChecker;
  use std::io::Write;
  let path = file_path(num);
  // the task may remove the file it was asked to write (the checkers document this case)
  let set = |f: &mut std::fs::File| -> Result<(), pie::resource::file::FsError> {
    if v == ABSENT { std::fs::remove_file(file_path(num))?; } else { f.write_all(&file_content(v))?; f.flush()?; }
    emit(json!({"ev":"res_set","r":r,"v":v,"id":0}));
    Ok(())
  };
  if two_step {
    // the file is produced by other means (as an external tool would) and only declared afterwards: no pie writer involved
    // (odd values; even values go through the writer pie hands out)
    if v.rem_euclid(2) == 1 { let mut f = std::fs::File::create(&path).expect("harness: create file"); set(&mut f).expect("harness: file write"); }
    else { let mut f = ctx.create_writer(&path).expect("harness: unexpected create_writer error"); set(&mut f).expect("harness: file write"); }
    match c { "ex" => ctx.written_to(&path, ExistsChecker), _ => ctx.written_to(&path, HashChecker) }.expect("harness: unexpected written_to error");
  } else {
    match c { "ex" => ctx.write(&path, ExistsChecker, set), _ => ctx.write(&path, HashChecker, set) }.expect("harness: unexpected write error");
  }
}

fn read_res<C: Context>(ctx: &mut C, scn: &Scenario, r: i64, chk: RChk) -> i64 {
  let (ty, num) = (scn.rtype[(r - 1) as usize], scn.rnum[(r - 1) as usize]);
  match ty {
    3 => read_file_res(ctx, num, chk.id()),
    2 => ctx.read(&MK(num), pie::resource::map::MapEqualsChecker).expect("harness: unexpected read error").copied().unwrap_or(ABSENT),
    0 => ctx.read(&Res::<0>(num), chk).expect("harness: unexpected read error").get(),
    1 => ctx.read(&Res::<1>(num), chk).expect("harness: unexpected read error").get(),
    _ => panic!("harness: unknown resource type"),
  }
}

fn write_res<C: Context>(ctx: &mut C, scn: &Scenario, r: i64, chk: RChk, v: i64, two_step: bool) {
  let (ty, num) = (scn.rtype[(r - 1) as usize], scn.rnum[(r - 1) as usize]);
  fn go<C: Context, const K: u8>(ctx: &mut C, res: Res<K>, chk: RChk, v: i64, two_step: bool) {
    if two_step {
      {
        let mut w = ctx.create_writer(&res).expect("harness: unexpected create_writer error");
        w.set(v);
      }
      ctx.written_to(&res, chk).expect("harness: unexpected written_to error");
    } else {
      ctx.write(&res, chk, |w| { w.set(v); Ok(()) }).expect("harness: unexpected write error");
    }
  }
  match ty {
    0 => go(ctx, Res::<0>(num), chk, v, two_step),
    1 => go(ctx, Res::<1>(num), chk, v, two_step),
    3 => write_file_res(ctx, r, num, chk.id(), v, two_step),
    2 => {
      use pie::resource::map::{MapEqualsChecker, MapWriter};
      use std::collections::hash_map::Entry;
      // the map resource cannot log its own mutations: the write function (harness code) reports what it stored
      let set = |w: &mut MapWriter<'_, MK>| {
        if v == ABSENT { if let Entry::Occupied(e) = w.entry() { e.remove(); } } else { w.insert(v); }
        emit(json!({"ev":"res_set","r":r,"v":v,"id":0}));
      };
      let key = MK(num);
      if two_step {
        { let mut w = ctx.create_writer(&key).expect("harness: unexpected create_writer error"); set(&mut w); }
        ctx.written_to(&key, MapEqualsChecker).expect("harness: unexpected written_to error");
      } else {
        ctx.write(&key, MapEqualsChecker, |w| { set(w); Ok(()) }).expect("harness: unexpected write error");
      }
    }
    _ => panic!("harness: unknown resource type"),
  }
}

/// User-defined output checker that tolerates a distance of one between the encoded outputs (not an equivalence).
#[derive(Clone, Copy, PartialEq, Eq, Hash, Debug)]
pub struct NearOut;
impl pie::OutputChecker<Out> for NearOut {
  type Stamp = i64;
  fn stamp(&self, output: &Out) -> i64 { enc_out(output) }
  fn check(&self, output: &Out, stamp: &i64) -> Option<impl Debug> {
    let o = enc_out(output);
    if (o - *stamp).abs() > 1 { Some(o) } else { None }
  }
}

/// Zero-sized task types: every value of such a type has the same (dangling) address and an empty hash.
#[derive(Clone, Copy, PartialEq, Eq, Hash, Debug)]
pub struct ZA;
#[derive(Clone, Copy, PartialEq, Eq, Hash, Debug)]
pub struct ZB;
impl Task for ZA {
  type Output = Out;
  fn execute<C: Context>(&self, context: &mut C) -> Out { interp(5, 0, context) }
}
impl Task for ZB {
  type Output = Out;
  fn execute<C: Context>(&self, context: &mut C) -> Out { interp(6, 0, context) }
}

/// Anything that can require a task: a task context or a session.
pub trait Requirer {
  fn req<T: Task<Output=Out>>(&mut self, task: &T, c: &str) -> Out;
}
pub struct CtxReq<'a, C: Context>(pub &'a mut C);
impl<C: Context> Requirer for CtxReq<'_, C> {
  fn req<T: Task<Output=Out>>(&mut self, task: &T, c: &str) -> Out {
    match c {
      "eq" => self.0.require(task, EqualsChecker),
      "okeq" => self.0.require(task, OkEqualsChecker),
      "erreq" => self.0.require(task, ErrEqualsChecker),
      "res" => self.0.require(task, ResultChecker),
      "any" => self.0.require(task, AlwaysConsistent),
      "near" => self.0.require(task, NearOut),
      _ => panic!("harness: unknown output checker {}", c),
    }
  }
}
pub struct SessReq<'a, 'p>(pub &'a mut pie::Session<'p>);
impl Requirer for SessReq<'_, '_> {
  fn req<T: Task<Output=Out>>(&mut self, task: &T, _c: &str) -> Out { self.0.require(task) }
}

/// Requires abstract task `t` (constructing the concrete Rust type of its identity) through `rq`.
pub fn require_abs<R: Requirer>(rq: &mut R, scn: &Scenario, t: i64, c: &str) -> Out {
  let (ty, num) = (scn.ttype[(t - 1) as usize], scn.tnum[(t - 1) as usize]);
  match ty {
    0 => rq.req(&Tk::<0>(num), c),
    1 => rq.req(&Tk::<1>(num), c),
    2 => rq.req(&Box::new(Tk::<0>(num)), c),
    3 => rq.req(&Rc::new(Tk::<0>(num)), c),
    4 => rq.req(&Arc::new(Tk::<0>(num)), c),
    5 => rq.req(&ZA, c),
    6 => rq.req(&ZB, c),
    _ => panic!("harness: unknown task type"),
  }
}

fn require_task<C: Context>(ctx: &mut C, scn: &Scenario, t: i64, c: &str) -> Out {
  require_abs(&mut CtxReq(ctx), scn, t, c)
}

// ------------------------------------------------------------------------------------------------ identity mapping

/// Abstract id of a task/resource key given as a type id (from the tracker or the store dump) and its number.
pub fn task_id_of(ty: TypeId, num: u32) -> Option<i64> {
  let k = if ty == TypeId::of::<Tk<0>>() { 0 }
    else if ty == TypeId::of::<Tk<1>>() { 1 }
    else if ty == TypeId::of::<Box<Tk<0>>>() { 2 }
    else if ty == TypeId::of::<Rc<Tk<0>>>() { 3 }
    else if ty == TypeId::of::<Arc<Tk<0>>>() { 4 }
    else if ty == TypeId::of::<ZA>() { 5 }
    else if ty == TypeId::of::<ZB>() { 6 }
    else { return None };
  world::scn().task_id(k, num)
}
pub fn res_id_of(ty: TypeId, num: u32) -> Option<i64> {
  let k = if ty == TypeId::of::<Res<0>>() { 0 } else if ty == TypeId::of::<Res<1>>() { 1 } else if ty == TypeId::of::<MK>() { 2 }
    else if ty == TypeId::of::<std::path::PathBuf>() { 3 } else { return None };
  world::scn().res_id(k, num)
}

/// Parses the number out of the debug text "Tk(n)" / "Res(n)".
pub fn parse_num(s: &str) -> u32 {
  if s.starts_with('"') {   // debug text of a path: the number is the trailing digits of the file name
    let t = s.trim_matches('"');
    let digits: String = t.chars().rev().take_while(|c| c.is_ascii_digit()).collect::<String>().chars().rev().collect();
    return digits.parse().unwrap_or(0);
  }
  let a = s.find('(').map(|i| i + 1).unwrap_or(0);
  let b = s.rfind(')').unwrap_or(s.len());
  s[a..b].trim().parse().unwrap_or(0)
}

/// Abstract value of the debug text of a stamp or output.
pub fn parse_val(s: &str) -> i64 {
  let s = s.trim();
  if s.starts_with("Some([") { return world::with(|w| w.hash_names.get(s).copied().unwrap_or(-88)); }
  if let Some(rest) = s.strip_prefix("Ok(") { return 2 * rest.trim_end_matches(')').parse::<i64>().unwrap_or(-99); }
  if let Some(rest) = s.strip_prefix("Err(") { return 2 * rest.trim_end_matches(')').parse::<i64>().unwrap_or(-99) + 1; }
  if let Some(rest) = s.strip_prefix("Some(") { return rest.trim_end_matches(')').parse::<i64>().unwrap_or(-99); }
  match s {
    "None" => -1,
    "true" => 1,
    "false" => 0,
    "()" => 0,
    _ => s.parse::<i64>().unwrap_or(-99),
  }
}

/// Abstract id of the debug text of a checker.
pub fn parse_chk(s: &str) -> &'static str {
  match s.trim() {
    "Eq" => "eq", "Ex" => "ex", "Par" => "par", "Any" => "any", "EqF" => "eqF", "Near" => "near", "NearOut" => "near", "MapEqualsChecker" => "eq", "HashChecker" => "eq", "ExistsChecker" => "ex",
    "EqualsChecker" => "eq", "OkEqualsChecker" => "okeq", "ErrEqualsChecker" => "erreq", "ResultChecker" => "res",
    "AlwaysConsistent" => "any",
    _ => "?",
  }
}
