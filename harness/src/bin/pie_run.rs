//! pie_run --scenarios FILE --out TRACE.ndjson : executes scenarios (JSON lines) against the real library.
use std::io::{BufRead, BufReader, Write};

use pie_verif_harness::model::Scenario;
use pie_verif_harness::run::run_scenario;

fn main() {
  let args: Vec<String> = std::env::args().collect();
  let mut scen = None;
  let mut out = None;
  let mut i = 1;
  while i < args.len() {
    match args[i].as_str() {
      "--scenarios" => { scen = Some(args[i + 1].clone()); i += 2; }
      "--out" => { out = Some(args[i + 1].clone()); i += 2; }
      a => { eprintln!("unknown argument {}", a); std::process::exit(2); }
    }
  }
  let scen = scen.expect("--scenarios");
  let out = out.expect("--out");
  std::panic::set_hook(Box::new(|_| {}));
  let f = BufReader::new(std::fs::File::open(&scen).expect("open scenarios"));
  let mut w = std::io::BufWriter::new(std::fs::File::create(&out).expect("create out"));
  let mut n = 0usize;
  let mut events = 0usize;
  for line in f.lines() {
    let line = line.expect("read");
    if line.trim().is_empty() { continue; }
    let scn: Scenario = match serde_json::from_str(&line) {
      Ok(s) => s,
      Err(e) => { eprintln!("bad scenario: {}", e); std::process::exit(2); }
    };
    let lines = run_scenario(&scn);
    events += lines.len();
    for l in lines { w.write_all(l.as_bytes()).unwrap(); w.write_all(b"\n").unwrap(); }
    n += 1;
  }
  w.flush().unwrap();
  eprintln!("pie_run: {} scenarios, {} events -> {}", n, events, out);
}
