//! pie_run gen --family F --n N --seed S --out SCENARIOS.jsonl [--max-t 5 --max-r 4 --max-len 3 --steps 5 --wide 0.2 --chain -1 --fixed t,r,len --retry 0]
//! pie_run run --scenarios FILE --out TRACE.ndjson [--repeat K]
//!   executes scenarios (JSON lines) against the real library; with --repeat K each scenario is executed K times
//!   on fresh instances and the K traces are written to TRACE.ndjson, TRACE.ndjson.2, ... (determinism check).
use std::collections::HashMap;
use std::io::{BufRead, BufReader, Write};

use pie_verif_harness::gen::{generate, GenCfg};
use pie_verif_harness::model::Scenario;
use pie_verif_harness::run::run_scenario;

fn main() {
  let args: Vec<String> = std::env::args().collect();
  if args.len() < 2 { eprintln!("usage: pie_run gen|run ..."); std::process::exit(2); }
  let mut opt: HashMap<String, String> = HashMap::new();
  let mut i = 2;
  while i + 1 < args.len() { opt.insert(args[i].trim_start_matches("--").to_string(), args[i + 1].clone()); i += 2; }
  let get = |k: &str, d: &str| opt.get(k).cloned().unwrap_or_else(|| d.to_string());
  match args[1].as_str() {
    "gen" => {
      let fixed = opt.get("fixed").map(|f| { let v: Vec<usize> = f.split(',').map(|x| x.parse().unwrap()).collect(); (v[0], v[1], v[2]) });
      let cfg = GenCfg {
        fixed,
        family: get("family", "WF"),
        max_t: get("max-t", "5").parse().unwrap(),
        max_r: get("max-r", "4").parse().unwrap(),
        max_len: get("max-len", "3").parse().unwrap(),
        steps: get("steps", "5").parse().unwrap(),
        wide: get("wide", "0.2").parse().unwrap(),
        chain: get("chain", "-1").parse().unwrap(),
      };
      let n: usize = get("n", "10").parse().unwrap();
      let seed: u64 = get("seed", "1").parse().unwrap();
      let retry = get("retry", "0") != "0";
      let mut w = std::io::BufWriter::new(std::fs::File::create(get("out", "scenarios.jsonl")).expect("create out"));
      for idx in 0..n {
        let mut s = generate(seed, idx, &cfg);
        if retry {
          // same-session retry profile (post-processing only: the generator's random stream is untouched): the caller
          // keeps the Session after a caught top-down panic; every pure-require session also retries its first root
          s.retry = true;
          s.id = format!("{}-retry", s.id);
          for st in s.hist.iter_mut() {
            if let pie_verif_harness::model::Step::Session { acts } = st {
              if acts.len() >= 1 && acts.iter().all(|a| matches!(a, pie_verif_harness::model::Act::Req { .. })) { let a = acts[0].clone(); acts.push(a); }
            }
          }
        }
        w.write_all(serde_json::to_string(&s).unwrap().as_bytes()).unwrap();
        w.write_all(b"\n").unwrap();
      }
      w.flush().unwrap();
    }
    "run" => {
      let scen = get("scenarios", "");
      let out = get("out", "");
      let repeat: usize = get("repeat", "1").parse().unwrap();
      std::panic::set_hook(Box::new(|_| {}));
      let f = BufReader::new(std::fs::File::open(&scen).expect("open scenarios"));
      let mut ws: Vec<_> = (0..repeat).map(|k| {
        let p = if k == 0 { out.clone() } else { format!("{}.{}", out, k + 1) };
        std::io::BufWriter::new(std::fs::File::create(p).expect("create out"))
      }).collect();
      let (mut n, mut events) = (0usize, 0usize);
      for line in f.lines() {
        let line = line.expect("read");
        if line.trim().is_empty() { continue; }
        let scn: Scenario = match serde_json::from_str(&line) {
          Ok(s) => s,
          Err(e) => { eprintln!("bad scenario: {}", e); std::process::exit(2); }
        };
        for w in ws.iter_mut() {
          let lines = run_scenario(&scn);
          events += lines.len();
          for l in lines { w.write_all(l.as_bytes()).unwrap(); w.write_all(b"\n").unwrap(); }
        }
        n += 1;
      }
      for w in ws.iter_mut() { w.flush().unwrap(); }
      eprintln!("pie_run: {} scenarios x {}, {} events -> {}", n, repeat, events, out);
    }
    other => { eprintln!("unknown command {}", other); std::process::exit(2); }
  }
}
