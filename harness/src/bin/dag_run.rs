//! dag_run gen --n N --seed S --max-nodes K --ops M --out SEQS.jsonl
//! dag_run run --seqs FILE --out TRACE.ndjson
//!   executes operation sequences on the real pie_graph::DAG and records, after every operation, its result and
//!   (depending on the operation's observation level q) everything observable through the public API.
use std::cmp::Ordering;
use std::collections::HashMap;
use std::io::{BufRead, BufReader, Write};

use rand::rngs::StdRng;
use rand::{Rng, SeedableRng};
use serde::{Deserialize, Serialize};
use serde_json::{json, Value};

use pie_graph::{Error, Node, DAG};

#[derive(Serialize, Deserialize, Clone, Debug)]
struct Op {
  op: String,
  #[serde(default)]
  a: usize,
  #[serde(default)]
  b: usize,
  #[serde(default)]
  d: i64,
  /// observation level after the operation: 0 none, 1 ranks and adjacency only, 2 everything
  #[serde(default)]
  q: u8,
}

#[derive(Serialize, Deserialize, Clone, Debug)]
struct Seq {
  id: String,
  ops: Vec<Op>,
}

fn observe(dag: &DAG<i64, i64>, nodes: &[Node], level: u8) -> Value {
  let idx: HashMap<Node, usize> = nodes.iter().enumerate().map(|(i, n)| (*n, i + 1)).collect();
  let id = |n: &Node| -> i64 { idx.get(n).map(|i| *i as i64).unwrap_or(0) };
  let ranks: HashMap<Node, u32> = dag.iter_unsorted().map(|(r, n)| (n, r)).collect();
  let mut ns = Vec::new();
  for (i, n) in nodes.iter().enumerate() {
    let live = dag.contains_node(n);
    let out: Vec<i64> = dag.get_outgoing_edge_nodes(n).map(|c| id(c)).collect();
    let outd: Vec<i64> = dag.get_outgoing_edge_data(n).copied().collect();
    let oute: Vec<Value> = dag.get_outgoing_edges(n).map(|(c, d)| json!([id(c), d])).collect();
    let outn: Vec<i64> = dag.get_outgoing_edge_node_data(n).copied().collect();
    let inc: Vec<i64> = dag.get_incoming_edge_nodes(n).map(|c| id(c)).collect();
    let incd: Vec<i64> = dag.get_incoming_edge_data(n).copied().collect();
    let ince: Vec<Value> = dag.get_incoming_edges(n).map(|(c, d)| json!([id(c), d])).collect();
    let incn: Vec<i64> = dag.get_incoming_edge_node_data(n).copied().collect();
    let mut o = json!({"id": i + 1, "live": live, "rank": ranks.get(n).copied().unwrap_or(0),
      "nd": dag.get_node_data(n).copied().unwrap_or(-1),
      "out": out, "outd": outd, "oute": oute, "outn": outn, "inc": inc, "incd": incd, "ince": ince, "incn": incn});
    if level >= 2 {
      let (desc, descu, dmiss): (Value, Value, i64) = match (dag.descendants(n), dag.descendants_unsorted(n)) {
        (Ok(d), Ok(du)) => (json!(d.map(|x| id(&x)).collect::<Vec<_>>()), json!(du.map(|(r, x)| json!([r, id(&x)])).collect::<Vec<_>>()), 0),
        (Err(Error::NodeMissing), Err(Error::NodeMissing)) => (json!([]), json!([]), 2),
        _ => (json!([]), json!([]), 1),
      };
      o["desc"] = desc;
      o["descu"] = descu;
      o["dmiss"] = json!(dmiss);
    }
    ns.push(o);
  }
  let mut obs = json!({"level": level, "len": dag.len(), "empty": dag.is_empty(), "nodes": ns});
  if level >= 2 {
    let mut pairs = Vec::new();
    for (i, a) in nodes.iter().enumerate() {
      for (j, b) in nodes.iter().enumerate() {
        let both = dag.contains_node(a) && dag.contains_node(b);
        let cmp = if both { match dag.topo_cmp(a, b) { Ordering::Less => -1, Ordering::Equal => 0, Ordering::Greater => 1 } } else { 9 };
        pairs.push(json!({"a": i + 1, "b": j + 1, "ce": dag.contains_edge(a, b), "cte": dag.contains_transitive_edge(a, b),
          "cte2": dag.contains_transitive_edge(a, b), "ed": dag.get_edge_data(a, b).copied().unwrap_or(-1), "cmp": cmp}));
      }
    }
    obs["pairs"] = json!(pairs);
  }
  obs
}

fn run_seq(seq: &Seq, out: &mut Vec<String>) {
  let mut dag: DAG<i64, i64> = DAG::new();
  let mut nodes: Vec<Node> = Vec::new();
  out.push(json!({"ev":"reset","id":seq.id}).to_string());
  for op in seq.ops.iter() {
    let get = |i: usize, nodes: &Vec<Node>| -> Option<Node> { if i >= 1 && i <= nodes.len() { Some(nodes[i - 1]) } else { None } };
    let mut e = json!({"ev":"op","op":op.op,"a":op.a,"b":op.b,"d":op.d});
    match op.op.as_str() {
      "add_node" => {
        let n = dag.add_node(100 + nodes.len() as i64 + 1);
        nodes.push(n);
        e["res"] = json!("node");
      }
      "add_edge" => {
        if let (Some(a), Some(b)) = (get(op.a, &nodes), get(op.b, &nodes)) {
          e["res"] = json!(match dag.add_edge(a, b, op.d) { Ok(true) => "true", Ok(false) => "false", Err(Error::CycleDetected) => "cycle", Err(Error::NodeMissing) => "missing" });
        } else { e["res"] = json!("skipped"); }
      }
      "remove_edge" => {
        if let (Some(a), Some(b)) = (get(op.a, &nodes), get(op.b, &nodes)) {
          match dag.remove_edge(a, b) { Some(d) => { e["res"] = json!("some"); e["ret"] = json!(d); } None => { e["res"] = json!("none"); e["ret"] = json!(-1); } }
        } else { e["res"] = json!("skipped"); }
      }
      "remove_outgoing" => {
        if let Some(a) = get(op.a, &nodes) {
          let idx: HashMap<Node, usize> = nodes.iter().enumerate().map(|(i, n)| (*n, i + 1)).collect();
          match dag.remove_outgoing_edges_of_node(a) {
            Some(v) => { e["res"] = json!("some"); e["ret"] = json!(v.iter().map(|(n, d)| json!([idx.get(n).copied().unwrap_or(0), d])).collect::<Vec<_>>()); }
            None => { e["res"] = json!("none"); e["ret"] = json!([]); }
          }
        } else { e["res"] = json!("skipped"); }
      }
      "remove_node" => {
        if let Some(a) = get(op.a, &nodes) { e["res"] = json!(if dag.remove_node(a) { "true" } else { "false" }); } else { e["res"] = json!("skipped"); }
      }
      other => panic!("unknown op {}", other),
    }
    e["q"] = json!(op.q);
    if op.q > 0 { e["obs"] = observe(&dag, &nodes, op.q); }
    out.push(e.to_string());
  }
  out.push(json!({"ev":"end"}).to_string());
}

fn gen(seed: u64, index: usize, max_nodes: usize, nops: usize) -> Seq {
  let mut rng = StdRng::seed_from_u64(seed.wrapping_mul(0x9E3779B97F4A7C15).wrapping_add(index as u64));
  let mut ops = Vec::new();
  let mut created = 0usize;
  // observation policy of this sequence: always full, always light, sparse, or only at the end
  let policy = rng.gen_range(0..4);
  let n = rng.gen_range(nops / 2..=nops);
  for k in 0..n {
    let roll = rng.gen_range(0..100);
    let pick = |rng: &mut StdRng, created: usize| -> usize { if created == 0 { 1 } else { rng.gen_range(1..=created) } };
    let mut op = if created < 2 || (roll < 18 && created < max_nodes) {
      created += 1;
      Op { op: "add_node".into(), a: 0, b: 0, d: 0, q: 0 }
    } else if roll < 66 {
      // bias towards edges from older to younger and back (both exercise the reordering and the cycle search)
      let a = pick(&mut rng, created); let b = pick(&mut rng, created);
      Op { op: "add_edge".into(), a, b, d: rng.gen_range(1..100), q: 0 }
    } else if roll < 80 {
      Op { op: "remove_edge".into(), a: pick(&mut rng, created), b: pick(&mut rng, created), d: 0, q: 0 }
    } else if roll < 88 {
      Op { op: "remove_outgoing".into(), a: pick(&mut rng, created), b: 0, d: 0, q: 0 }
    } else if roll < 95 {
      Op { op: "remove_node".into(), a: pick(&mut rng, created), b: 0, d: 0, q: 0 }
    } else {
      Op { op: "add_edge".into(), a: pick(&mut rng, created), b: pick(&mut rng, created), d: rng.gen_range(1..100), q: 0 }
    };
    op.q = match policy {
      0 => 2,
      1 => 1,
      2 => if rng.gen_bool(0.25) { 2 } else if rng.gen_bool(0.3) { 1 } else { 0 },
      _ => 0,
    };
    if k == n - 1 { op.q = 2; }
    ops.push(op);
  }
  Seq { id: format!("dag-{}-{}", seed, index), ops }
}

fn main() {
  let args: Vec<String> = std::env::args().collect();
  let mut opt: HashMap<String, String> = HashMap::new();
  let mut i = 2;
  while i + 1 < args.len() { opt.insert(args[i].trim_start_matches("--").to_string(), args[i + 1].clone()); i += 2; }
  let get = |k: &str, d: &str| opt.get(k).cloned().unwrap_or_else(|| d.to_string());
  match args.get(1).map(|s| s.as_str()) {
    Some("gen") => {
      let n: usize = get("n", "10").parse().unwrap();
      let seed: u64 = get("seed", "1").parse().unwrap();
      let max_nodes: usize = get("max-nodes", "6").parse().unwrap();
      let nops: usize = get("ops", "30").parse().unwrap();
      let mut w = std::io::BufWriter::new(std::fs::File::create(get("out", "seqs.jsonl")).expect("create"));
      for idx in 0..n {
        w.write_all(serde_json::to_string(&gen(seed, idx, max_nodes, nops)).unwrap().as_bytes()).unwrap();
        w.write_all(b"\n").unwrap();
      }
    }
    Some("run") => {
      std::panic::set_hook(Box::new(|_| {}));
      let f = BufReader::new(std::fs::File::open(get("seqs", "")).expect("open seqs"));
      let mut w = std::io::BufWriter::new(std::fs::File::create(get("out", "")).expect("create"));
      let (mut n, mut ev) = (0, 0);
      for line in f.lines() {
        let line = line.unwrap();
        if line.trim().is_empty() { continue; }
        let seq: Seq = serde_json::from_str(&line).expect("bad sequence");
        let mut out = Vec::new();
        let r = std::panic::catch_unwind(std::panic::AssertUnwindSafe(|| run_seq(&seq, &mut out)));
        if r.is_err() { out.push(json!({"ev":"panic"}).to_string()); out.push(json!({"ev":"end"}).to_string()); }
        ev += out.len();
        for l in out { w.write_all(l.as_bytes()).unwrap(); w.write_all(b"\n").unwrap(); }
        n += 1;
      }
      w.flush().unwrap();
      eprintln!("dag_run: {} sequences, {} events", n, ev);
    }
    _ => { eprintln!("usage: dag_run gen|run ..."); std::process::exit(2); }
  }
}
