//! unit_run <suite> --out TRACE.ndjson [--seed S --n N]
//!   suites: checkers (C12), map (C14), files (C13), keys (C15), evtracker (C17)
//! Table- and sequence-driven runs of small self-contained parts of pie; every result is logged and validated by TLC
//! against the corresponding small model (spec/UnitTrace.tla).
use std::collections::HashMap;
use std::io::Write;

use pie_verif_harness::unit;

fn main() {
  let args: Vec<String> = std::env::args().collect();
  if args.len() < 2 { eprintln!("usage: unit_run <suite> --out FILE"); std::process::exit(2); }
  let mut opt: HashMap<String, String> = HashMap::new();
  let mut i = 2;
  while i + 1 < args.len() { opt.insert(args[i].trim_start_matches("--").to_string(), args[i + 1].clone()); i += 2; }
  let get = |k: &str, d: &str| opt.get(k).cloned().unwrap_or_else(|| d.to_string());
  let seed: u64 = get("seed", "1").parse().unwrap();
  let n: usize = get("n", "100").parse().unwrap();
  let lines = match args[1].as_str() {
    "checkers" => unit::checkers::run(),
    "map" => unit::map::run(seed, n),
    "files" => unit::files::run(seed, n, &get("dir", "/verif/work/files")),
    "keys" => unit::keys::run(),
    "evtracker" => unit::evtracker::run(seed, n),
    other => { eprintln!("unknown suite {}", other); std::process::exit(2); }
  };
  let mut w = std::io::BufWriter::new(std::fs::File::create(get("out", "unit.ndjson")).expect("create out"));
  for l in lines.iter() { w.write_all(l.as_bytes()).unwrap(); w.write_all(b"\n").unwrap(); }
  w.flush().unwrap();
  eprintln!("unit_run {}: {} events", args[1], lines.len());
}
