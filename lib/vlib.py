"""Helpers of ./check: harness build, TLC invocation, trace validation, evidence and replay files."""
import json
import os
import re
import shutil
import subprocess
import time

VERIF = os.path.dirname(os.path.dirname(os.path.abspath(__file__)))
WORK = os.path.join(VERIF, "work")
SPEC = os.path.join(VERIF, "spec")
HARNESS = os.path.join(VERIF, "harness")
EVID = os.path.join(VERIF, "evidence")
REPLAY = os.path.join(EVID, "replay")
SCEN = os.path.join(VERIF, "scenarios")
BIN = os.path.join(WORK, "target", "debug")
NCPU = os.cpu_count() or 4


class ToolError(Exception):
    pass


def sh(cmd, cwd=None, env=None, timeout=None, check=True):
    e = dict(os.environ)
    e.update({"CARGO_NET_OFFLINE": "true"})
    if env:
        e.update(env)
    try:
        p = subprocess.run(cmd, cwd=cwd, env=e, stdout=subprocess.PIPE, stderr=subprocess.STDOUT, timeout=timeout,
                           universal_newlines=True)
    except subprocess.TimeoutExpired as ex:
        raise ToolError("timeout after %ss: %s" % (timeout, " ".join(cmd))) from ex
    if check and p.returncode != 0:
        raise ToolError("command failed (%d): %s\n%s" % (p.returncode, " ".join(cmd), p.stdout[-4000:]))
    return p


def build_harness():
    os.makedirs(WORK, exist_ok=True)
    lock = os.path.join(HARNESS, "Cargo.lock")
    if not os.path.exists(lock):
        shutil.copy("/repo/Cargo.lock", lock)
    sh(["cargo", "build", "--offline", "--bins"], cwd=HARNESS, timeout=1800)
    return BIN


# ------------------------------------------------------------------------------------------------ TLC

TLC_JAR = "/opt/veriftools/tla/tla2tools.jar"


def tlc(module, cfg, env=None, workers=1, timeout=900, extra=None, metadir=None, java_opts=None):
    """Runs TLC on spec/<module>.tla with spec/<cfg>; returns dict(out, distinct, generated, ok, error)."""
    md = metadir or os.path.join(WORK, "tlc_" + os.path.basename(cfg).replace(".cfg", ""))
    shutil.rmtree(md, ignore_errors=True)
    e = {"JAVA_TOOL_OPTIONS": java_opts or "-Xss512m -XX:+UseParallelGC -Xmx8g"}
    if env:
        e.update(env)
    cmd = ["timeout", str(timeout), "tlc", "-workers", str(workers), "-metadir", md, "-cleanup", "-noGenerateSpecTE",
           "-config", cfg] + (extra or []) + [module + ".tla"]
    t0 = time.time()
    p = sh(cmd, cwd=SPEC, env=e, timeout=timeout + 30, check=False)
    out = p.stdout
    shutil.rmtree(md, ignore_errors=True)
    res = {"out": out, "rc": p.returncode, "wall_s": round(time.time() - t0, 1), "distinct": 0, "generated": 0}
    m = re.search(r"(\d+) states generated, (\d+) distinct states found", out)
    if m:
        res["generated"] = int(m.group(1))
        res["distinct"] = int(m.group(2))
    res["ok"] = ("Model checking completed. No error has been found." in out) or \
                ("Finished in" in out and "Error:" not in out and p.returncode == 0)
    if p.returncode == 124:
        res["timeout"] = True
    return res


# ------------------------------------------------------------------------------------------------ known findings

def known_findings():
    p = os.path.join(VERIF, "known_findings.json")
    if not os.path.exists(p):
        return []
    return json.load(open(p))["findings"]


# ------------------------------------------------------------------------------------------------ scenarios -> traces -> verdicts

def gen_scenarios(family, n, seed, out, max_t=5, max_r=4, max_len=3, steps=5, fixed=None, wide=0.2, chain=-1, retry=0):
    cmd = [os.path.join(BIN, "pie_run"), "gen", "--family", family, "--n", str(n), "--seed", str(seed), "--out", out,
           "--max-t", str(max_t), "--max-r", str(max_r), "--max-len", str(max_len), "--steps", str(steps), "--wide", str(wide), "--chain", str(chain)]
    if fixed:
        cmd += ["--fixed", "%d,%d,%d" % fixed]
    if retry:
        cmd += ["--retry", "1"]
    sh(cmd, timeout=600)


def conformance(tag, scn_file, dims, label):
    """Runs the scenarios of scn_file (all of dimensions dims) on the implementation and checks that every recorded stream is
    a behaviour of Pie.tla; drifting scenarios are reported (MODEL-DRIFT, a warning) and skipped."""
    scns = load_scenarios(scn_file)
    result = {"batch": label, "scenarios": len(scns), "conforming": 0, "events": 0, "drift": [], "tlc": []}
    remaining = scns
    for _ in range(4):
        if not remaining:
            break
        part = os.path.join(WORK, "%s.conf.jsonl" % tag)
        trace = os.path.join(WORK, "%s.conf.ndjson" % tag)
        with open(part, "w") as f:
            for sc in remaining:
                f.write(json.dumps(sc) + "\n")
        run_scenarios(part, trace)
        consumed, done, total, stats = run_conform(trace, dims, tag)
        result["tlc"].append({k: v for k, v in stats.items() if k != "pie_actions_taken"})
        for a, n in stats.get("pie_actions_taken", {}).items():
            result.setdefault("pie_actions_taken", {})[a] = result.get("pie_actions_taken", {}).get(a, 0) + n
        result["conforming"] += done
        result["events"] += consumed - 1
        if done >= len(remaining):
            break
        bad = remaining[done]
        lines = open(trace).read().split("\n")
        ev = lines[consumed - 1][:300] if consumed - 1 < len(lines) else "<end of trace>"
        result["drift"].append({"scenario": bad["id"], "line": consumed, "event": ev})
        print("MODEL-DRIFT: scenario %s is not a behaviour of Pie.tla (first unmatched recorded event, line %d: %s)" % (bad["id"], consumed, ev))
        remaining = remaining[done + 1:]
    return result


def run_scenarios(scn_file, trace_file, repeat=1):
    p = sh([os.path.join(BIN, "pie_run"), "run", "--scenarios", scn_file, "--out", trace_file, "--repeat", str(repeat)],
           timeout=1800)
    return p.stdout


def validate_trace(trace_file, out_file, tag, reinsert_moves=False, timeout=1800):
    """Runs PieTrace on the trace; returns the parsed result file plus TLC statistics."""
    if os.path.exists(out_file):
        os.remove(out_file)
    cfg = os.path.join(WORK, "PieTrace_%s.cfg" % tag)
    with open(cfg, "w") as f:
        f.write("SPECIFICATION Spec\nCONSTANT EdgeReinsertMovesToBack = %s\nPOSTCONDITION Accepted\nCHECK_DEADLOCK FALSE\n"
                % ("TRUE" if reinsert_moves else "FALSE"))
    r = tlc("PieTrace", cfg, env={"TRACE": trace_file, "OUT": out_file}, workers=1, timeout=timeout,
            metadir=os.path.join(WORK, "tlc_trace_" + tag))
    if not r["ok"] or not os.path.exists(out_file):
        raise ToolError("trace validation failed for %s:\n%s" % (trace_file, r["out"][-3000:]))
    res = json.load(open(out_file))
    res["tlc"] = {k: r[k] for k in ("distinct", "generated", "wall_s")}
    return res


def load_scenarios(path):
    return [json.loads(l) for l in open(path) if l.strip()]


def write_replay(prop, formula, scn, line, trace_lines):
    os.makedirs(REPLAY, exist_ok=True)
    name = "%s-%s-%s.json" % (prop, re.sub(r"[^A-Za-z0-9_.-]", "_", scn["id"]), formula)
    path = os.path.join(REPLAY, name)
    json.dump({"property": prop, "formula": formula, "scenario": scn, "line": line, "trace_excerpt": trace_lines},
              open(path, "w"), indent=1)
    return path


REPLAY_MODE = False


def write_evidence(prop, tier, seed, level, coverage, wall_s, violations, assumptions):
    if REPLAY_MODE:      # a replay re-executes one recorded scenario; it does not describe a check's coverage
        return
    os.makedirs(EVID, exist_ok=True)
    ev = {"property_id": prop, "tier": tier, "seed": seed, "level": level, "coverage": coverage,
          "assumptions": assumptions, "wall_s": round(wall_s, 1), "violations": violations}
    json.dump(ev, open(os.path.join(EVID, prop + ".json"), "w"), indent=1)


# ------------------------------------------------------------------------------------------------ property table

# families of generated scenarios per property: (family, quick count, thorough count, generator options)
PIE_PROPS = {
    "C01": {"fams": [("WF", 300, 2000, {}), ("WF", 100, 800, {"max_t": 7, "max_r": 5, "steps": 6})], "curated": ["known_findings.jsonl"], "design": ["td"]},
    "C02": {"fams": [("WF", 250, 2000, {}), ("WF", 80, 800, {"max_t": 7, "max_r": 5, "steps": 6})], "curated": ["f1_same_target_twice.jsonl"], "design": ["td"]},
    "C03": {"fams": [("WF", 150, 2000, {"steps": 6}), ("WF", 300, 2000, {"max_t": 8, "max_r": 5, "steps": 7}), ("WF", 150, 1500, {"max_t": 8, "steps": 7, "wide": 1.0}), ("FAULT", 80, 800, {})], "curated": ["known_findings.jsonl", "bu_shapes.jsonl"], "design": ["bu"]},
    "C04": {"fams": [("WF", 150, 2000, {"steps": 6}), ("WF", 300, 2000, {"max_t": 8, "max_r": 5, "steps": 7}), ("WF", 150, 1500, {"max_t": 8, "steps": 7, "wide": 1.0})], "curated": ["bu_shapes.jsonl"], "design": ["bu"]},
    "C05": {"fams": [("INJ", 150, 2000, {}), ("INJ", 50, 700, {"max_t": 7, "max_r": 5})], "curated": [], "design": ["inj"]},
    "C06": {"fams": [("INJ", 150, 1500, {}), ("WF", 60, 600, {}), ("WF", 60, 600, {"max_t": 7, "max_r": 5, "steps": 6}), ("FAULT", 80, 600, {})], "curated": [], "design": ["inj"]},
    "C07": {"fams": [("INJ", 150, 2000, {}), ("INJ", 50, 700, {"max_t": 7, "max_r": 5})], "curated": ["c07_cycle_shapes.jsonl"], "design": ["inj"]},
    "C08": {"fams": [("WF", 90, 1200, {}), ("TWOCHK", 40, 600, {}), ("ABORT", 50, 800, {})], "curated": ["k2_two_checkers.jsonl"], "design": ["td"]},
    "C09": {"fams": [("WF", 250, 2000, {}), ("WF", 80, 800, {"max_t": 7, "max_r": 5, "steps": 6})], "curated": [], "design": ["td"]},
    "C15": {"fams": [("IDENT", 250, 1500, {"steps": 6})], "curated": [], "design": []},
    "C17": {"fams": [("WF", 70, 1000, {}), ("INJ", 30, 500, {}), ("FAULT", 30, 300, {}), ("ABORT", 20, 300, {})], "curated": [], "design": []},
    "C18": {"fams": [("FAULT", 130, 1800, {}), ("FAULT", 40, 600, {"max_t": 7, "max_r": 5, "steps": 6})], "curated": [], "design": []},
    "C19": {"fams": [("ABORT", 120, 1400, {}), ("ABORT", 60, 600, {"max_t": 7, "max_r": 5, "steps": 6}), ("INJ", 60, 600, {}), ("ABORT", 80, 800, {"retry": 1})], "curated": ["f2_abort_then_require.jsonl"], "design": []},
    "C20": {"fams": [("ROLE", 300, 2000, {"max_t": 4}), ("WF", 60, 600, {})], "curated": ["known_findings.jsonl"], "design": []},
}

EXTRA_UNIT = {"C15": "keys"}

ASSUME_PIE = [
    "the harness (interpreter task, instrumented resource/checkers, recording tracker) reports faithfully what the library did",
    "TLC evaluates the specification correctly",
    "guarantees are bounded: exhaustive only inside the stated model constants, sampled beyond them",
]


def summarize_scn(scn):
    return {"id": scn["id"], "family": scn["family"], "tasks": scn["nt"], "resources": scn["nr"], "len": scn["len"],
            "hist": scn["hist"][:6], "prog_task1_row0": scn["prog"][0][0]}


def run_pie_check(prop, tier, seed, replay):
    t0 = time.time()
    spec = PIE_PROPS[prop]
    build_harness()
    tag = prop
    scn_file = os.path.join(WORK, "%s.scn.jsonl" % tag)
    trace_file = os.path.join(WORK, "%s.trace.ndjson" % tag)
    out_file = os.path.join(WORK, "%s.result.json" % tag)
    design = []
    sim_stats = None
    sims = []
    sim_cfg = None
    with open(scn_file, "w") as out:
        if not replay:
            quick_cfgs, more_cfgs, sim_cfg = PROP_DESIGN.get(prop, ([], [], None))
            for name in quick_cfgs + (more_cfgs if tier == "thorough" else []):
                # the last exhaustive configuration also prints every complete behaviour; a uniform sample is replayed
                emit = name == (quick_cfgs + (more_cfgs if tier == "thorough" else []))[-1]
                r = run_mc(name, {"EmitScenarios": True} if emit else None, timeout=3000)
                if r["violated"] or not r["completed"]:
                    raise ToolError("design-level check %s of the specification failed (independent of /repo): %s %s\n%s"
                                    % (name, r.get("violated"), r.get("viol"), r.get("error_tail", r.get("trace_tail", ""))[-3000:]))
                design.append({k: r[k] for k in ("name", "distinct", "generated", "depth", "wall_s", "params")})
                if emit:
                    mcs, total = sample_design_scenarios(r, name, 150 if tier == "quick" else 3000, seed)
                    design[-1]["complete_behaviours_printed"] = total
                    design[-1]["behaviours_replayed_on_implementation"] = len(mcs)
                    for sc in mcs:
                        out.write(json.dumps(sc) + "\n")
            if sim_cfg:
                num = 150 if tier == "quick" else 3000
                r, sims = tlc_scenarios(sim_cfg, {}, num, 400, seed, cap=120 if tier == "quick" else 2500)
                if r["violated"]:
                    raise ToolError("simulation of the specification raised %s %s" % (r["violated"], r.get("viol")))
                sim_stats = {"config": sim_cfg, "behaviours": num, "states_generated": r["generated"], "scenarios_replayed": len(sims)}
                for sc in sims:
                    out.write(json.dumps(sc) + "\n")
        if replay:
            rp = json.load(open(replay))
            out.write(json.dumps(rp["scenario"]) + "\n")
        else:
            for c in spec["curated"]:
                out.write(open(os.path.join(SCEN, c)).read())
            for k, (fam, nq, nth, opts) in enumerate(spec["fams"]):
                part = os.path.join(WORK, "%s.%s.part.jsonl" % (tag, fam))
                n = nq if tier == "quick" else nth
                gen_scenarios(fam, n, seed * 1000 + k, part, **{kk: vv for kk, vv in opts.items()})
                out.write(open(part).read())
                os.remove(part)
    scns = load_scenarios(scn_file)
    # validate in chunks (bounded memory and time per TLC run); excerpts of violating traces are extracted right away
    res = {"viol": [], "kf": [], "runs": [], "events": 0, "tlc": {"distinct": 0, "generated": 0, "wall_s": 0.0}}
    excerpts = {}
    CH = 350
    for ci in range(0, len(scns), CH):
        part = os.path.join(WORK, "%s.chunk.jsonl" % tag)
        with open(part, "w") as f:
            for sc in scns[ci:ci + CH]:
                f.write(json.dumps(sc) + "\n")
        run_scenarios(part, trace_file)
        r1 = validate_trace(trace_file, out_file, tag, timeout=7200)
        clines = None
        for v in r1["viol"] + r1["kf"]:
            if (v[2], v[4]) not in excerpts and v[3] == prop:
                if clines is None:
                    clines = open(trace_file).read().split("\n")
                excerpts[(v[2], v[4])] = clines[max(0, v[1] - 30):v[1]]
        res["viol"] += r1["viol"]
        res["kf"] += r1["kf"]
        res["runs"] += r1["runs"]
        res["events"] += r1["events"]
        for k in ("distinct", "generated", "wall_s"):
            res["tlc"][k] += r1["tlc"][k]
    by_id = {s["id"]: s for s in scns}
    conf = []
    if not replay:
        # implementation -> specification at the level of single steps: recorded streams must be behaviours of Pie.tla
        if sims:
            cfile = os.path.join(WORK, "%s.confsim.jsonl" % tag)
            with open(cfile, "w") as f:
                for sc in sims[:80 if tier == "quick" else 1000]:
                    f.write(json.dumps(sc) + "\n")
            pr = dict(MC_DEFAULT)
            pr.update(MC_CONFIGS[sim_cfg])
            conf.append(conformance(tag, cfile, (pr["NT"], pr["NR"], pr["NV"], pr["NA"], pr["LEN"]), "TLC-simulated behaviours of " + sim_cfg))
        if spec["fams"][0][0] != "IDENT":     # identity scenarios have their own dimensions (type twins)
            cfile = os.path.join(WORK, "%s.confgen.jsonl" % tag)
            gen_scenarios(spec["fams"][0][0], 60 if tier == "quick" else 800, seed * 1000 + 777, cfile, fixed=(4, 3, 3))
            conf.append(conformance(tag, cfile, (4, 3, 4, 4, 3), "generated %s scenarios of fixed dimensions" % spec["fams"][0][0]))
        for (fam, nq, nth, opts) in spec["fams"]:
            if opts.get("retry"):
                # same-session retries after a caught top-down panic must be behaviours of Pie.tla as well (RootReq in mode "aborted")
                cfile = os.path.join(WORK, "%s.confretry.jsonl" % tag)
                gen_scenarios(fam, 40 if tier == "quick" else 500, seed * 1000 + 778, cfile, fixed=(4, 3, 3), retry=1)
                conf.append(conformance(tag, cfile, (4, 3, 4, 4, 3), "generated %s scenarios of fixed dimensions, same-session retry profile" % fam))
    lines = None
    kfs_open = {(f["property"], f["finding"]): f for f in known_findings() if f["status"] == "open"}
    viol = [v for v in res["viol"] if v[3] == prop]
    integ = [v for v in res["viol"] if v[3] == "INTEGRITY"]
    unattr = [v for v in res["viol"] if v[3] == "UNATTRIBUTED"]
    kf_hits = [k for k in res["kf"] if k[3] == prop]
    # a finding the file does not list is a violation
    for k in kf_hits:
        if (k[3], k[4]) not in kfs_open:
            viol.append(k)
    kf_hits = [k for k in kf_hits if (k[3], k[4]) in kfs_open]
    if integ:
        raise ToolError("harness/log integrity failures (not attributed to any property): %s" % integ[:5])
    for u in unattr[:3]:
        print("NOTE: unattributed internal panic in scenario %s at line %d (no listed property speaks about it)" % (u[2], u[1]))
    rc = 0
    reported = set()
    for v in viol:
        key = (v[2], v[4])
        if key in reported:
            continue
        reported.add(key)
        excerpt = excerpts.get((v[2], v[4]), [])
        path = write_replay(prop, v[4], by_id.get(v[2], {"id": v[2]}), v[1], excerpt)
        print("VIOLATION property=%s replay=%s" % (prop, path))
        print("  formula=%s scenario=%s trace line=%d" % (v[4], v[2], v[1]))
        rc = 1
        if len(reported) >= 20:
            break
    seen_kf = set()
    for k in kf_hits:
        if k[4] in seen_kf:
            continue
        seen_kf.add(k[4])
        f = kfs_open[(k[3], k[4])]
        print("KNOWN-FINDING: property=%s %s (%s; e.g. scenario %s line %d)" % (prop, f["finding"], f["what"], k[2], k[1]))
    unit_extra = None
    if prop in EXTRA_UNIT and not replay:
        suite = EXTRA_UNIT[prop]
        utrace = os.path.join(WORK, "%s.unit.ndjson" % tag)
        sh([os.path.join(BIN, "unit_run"), suite, "--seed", str(seed), "--out", utrace], timeout=600)
        ures = run_unit_trace(utrace, os.path.join(WORK, "%s.unit.json" % tag), tag)
        ulines = open(utrace).read().split("\n")
        for v in [v for v in ures["viol"] if v[1] == prop]:
            if ("unit", v[2]) in reported:
                continue
            reported.add(("unit", v[2]))
            path = write_replay(prop, v[2], {"id": "%s-unit" % suite, "suite": suite, "seed": seed, "n": 1}, v[0], ulines[max(0, v[0] - 3):v[0]])
            print("VIOLATION property=%s replay=%s" % (prop, path))
            print("  formula=%s trace line=%d: %s" % (v[2], v[0], ulines[v[0] - 1][:300]))
            rc = 1
        unit_extra = {"suite": suite, "events": ures["events"], "evaluations": ures["evaluations"], "tlc": ures["tlc"]}
    evals = sum(r["cnt"].get(prop, 0) for r in res["runs"])
    nontrivial = sum(1 for r in res["runs"] if r["cnt"].get(prop, 0) > 0)
    fams = {}
    for r in res["runs"]:
        fams[r["fam"]] = fams.get(r["fam"], 0) + 1
    coverage = {
        "states": res["tlc"]["distinct"] + sum(d["distinct"] for d in design),
        "transitions": res["tlc"]["generated"] + sum(d["generated"] for d in design) + (sim_stats["states_generated"] if sim_stats else 0),
        "design_configs": design, "design_simulation": sim_stats,
        "trace_validation": res["tlc"],
        "conformance_with_operational_spec": conf,
        "unit_suite": unit_extra,
        "model_drift": sum(len(c["drift"]) for c in conf),
        "traces_validated_against_impl": len(res["runs"]),
        "samples": [summarize_scn(s) for s in scns[:2]],
        "evaluations": evals, "distinct_nontrivial": nontrivial,
        "rule": "one case = one generated scenario (program table + history) executed on the real library and validated "
                "event by event by TLC against PieTrace.tla; non-trivial = the property's monitor formulas were evaluated "
                "at least once in that scenario (counter kept by the monitor)",
        "events_validated": res["events"], "scenarios_by_family": fams,
        "known_findings_hit": sorted(seen_kf), "violations_other_properties_seen": len(res["viol"]) - len(viol),
        "exhaustive": False,
    }
    write_evidence(prop, tier, seed, "model_checking", coverage, time.time() - t0, len(reported), ASSUME_PIE)
    print("%s: %d scenarios, %d events validated, %d formula evaluations, %d violation(s), %d known finding(s) [%.0fs]"
          % (prop, len(res["runs"]), res["events"], evals, len(reported), len(seen_kf), time.time() - t0))
    return rc


def run_check(prop, tier, seed, replay):
    global REPLAY_MODE
    REPLAY_MODE = bool(replay)
    if prop in PIE_PROPS:
        return run_pie_check(prop, tier, seed, replay)
    if prop in DAG_PROPS:
        return run_dag_check(prop, tier, seed, replay)
    if prop in UNIT_PROPS:
        return run_unit_check(prop, tier, seed, replay)
    if prop == "C16":
        return run_det_check(prop, tier, seed, replay)
    print("no check registered for", prop)
    return 2


def setup():
    build_harness()
    for m in ["PieCore", "PieMon", "PieTrace", "Pie", "DagCore", "DagPK", "DagTrace", "UnitModels", "UnitTrace", "TraceEq", "PieConform"]:
        p = sh(["tla-sany", m + ".tla"], cwd=SPEC, check=False, timeout=300)
        if "Semantic errors" in p.stdout or "Parse Error" in p.stdout or "Fatal errors" in p.stdout:
            raise ToolError("SANY rejects %s:\n%s" % (m, p.stdout[-2000:]))
    print("setup ok")
    return 0


def selftest():
    """Demonstrates the binding (DESIGN.md section 4.5): corrupted traces must be rejected by the monitors that own the corrupted
    fact, and the design check must fail when a repair constant is flipped back."""
    import random
    build_harness()
    rnd = random.Random(7)
    f = os.path.join(WORK, "self.jsonl")
    t = os.path.join(WORK, "self.ndjson")
    gen_scenarios("WF", 40, 4711, f, steps=6)
    run_scenarios(f, t)
    base = validate_trace(t, os.path.join(WORK, "self.json"), "self")
    ok = True
    print("unmodified trace: %d events, %d violations" % (base["events"], len(base["viol"])))
    ok &= len(base["viol"]) == 0
    lines = [l for l in open(t).read().split("\n") if l.strip()]

    def idx(pred):
        c = [i for i, l in enumerate(lines) if pred(json.loads(l))]
        return rnd.choice(c) if c else None

    def mutate(name, fn, expect):
        nonlocal ok
        ls = list(lines)
        if fn(ls) is False:
            print("%-34s (no candidate event in this trace)" % name)
            return
        p = os.path.join(WORK, "self_mut.ndjson")
        open(p, "w").write("\n".join(ls) + "\n")
        try:
            r = validate_trace(p, os.path.join(WORK, "self_mut.json"), "selfm")
            got = sorted(set("%s/%s" % (v[3], v[4]) for v in r["viol"]))
        except ToolError as e:
            got = ["TOOL-ERROR"]
        hit = any(any(g.startswith(x) for g in got) for x in expect)
        ok &= hit
        print("%-34s expected one of %s -> %s %s" % (name, expect, "REJECTED" if hit else "MISSED", got[:5]))

    def set_field(pred, field, fn):
        def go(ls):
            i = idx(pred)
            if i is None:
                return False
            e = json.loads(ls[i]); e[field] = fn(e[field]); ls[i] = json.dumps(e)
        return go

    def delete(pred):
        def go(ls):
            i = idx(pred)
            if i is None:
                return False
            del ls[i]
        return go

    mutate("returned output changed", set_field(lambda e: e["ev"] == "root_ret", "o", lambda o: (o + 1) % 4), ["C01/output", "C03/output", "C17/require_end_value"])
    mutate("execute_start dropped", delete(lambda e: e["ev"] == "exec_start"), ["C17/", "C02/", "C04/"])
    mutate("read stamp changed", set_field(lambda e: e["ev"] == "read_end", "s", lambda s: s + 1), ["C09/read_stamp"])
    mutate("write stamp changed", set_field(lambda e: e["ev"] == "write_end", "s", lambda s: s + 1), ["C09/write_stamp"])
    mutate("resource mutation dropped", delete(lambda e: e["ev"] == "res_set"), ["INTEGRITY/", "C09/"])
    mutate("check result flipped", set_field(lambda e: e["ev"] == "check_res_end" and e["res"] == "ok", "res", lambda r: "inc"), ["C09/resource_check_result"])
    mutate("schedule event dropped", delete(lambda e: e["ev"] == "schedule"), ["C09/inconsistent_not_scheduled", "C04/"])
    mutate("require_end output changed", set_field(lambda e: e["ev"] == "require_end" and e["c"] != "any", "o", lambda o: (o + 1) % 4), ["C17/", "C09/require_stamp"])
    mutate("reported error count changed", set_field(lambda e: e["ev"] == "sess_end", "errs", lambda n: n + 1), ["C18/reported_error_count"])
    mutate("composite children differ", set_field(lambda e: e["ev"] == "sess_end", "trk_same", lambda b: False), ["C17/composite_children_differ"])
    # the design check reacts to the repair constants
    r = run_mc("td_twice", {"EdgeReinsertMovesToBack": True}, timeout=600)
    hit = r["violated"] == "NoViolation" and "validation_order" in (r.get("viol") or "")
    ok &= hit
    print("%-34s -> %s (%s)" % ("Pie.tla with defect F1 modelled", "VIOLATION FOUND" if hit else "MISSED", r.get("viol")))
    r = run_mc("abort_2t1r", {"CheckLeftoverOfAborted": True}, timeout=600)
    hit = r["violated"] == "NoViolation"
    ok &= hit
    print("%-34s -> %s (%s)" % ("Pie.tla with defect F2 modelled", "VIOLATION FOUND" if hit else "MISSED", r.get("viol")))
    # vacuity: the retry configuration really runs builds in a session that already aborted
    r = run_mc("abort_retry_2t1r", timeout=600, extra_inv="NoRetryWitness")
    hit = r["violated"] == "NoRetryWitness"
    ok &= hit
    print("%-34s -> %s" % ("retry after abort explored (Retry)", "WITNESS REACHED" if hit else "NEVER REACHED"))
    # same-session retry with the retry's defect modelled is out of reach of a constant; binding: seeded change C19H (DESIGN.md section 12)
    r = run_dagpk(4, 7, [1, 2], reinsert=True, tag="self")
    hit = r["violated"] == "C11_Order"
    ok &= hit
    print("%-34s -> %s (%s)" % ("DagPK.tla with defect F1 modelled", "VIOLATION FOUND" if hit else "MISSED", r["violated"]))
    print("selftest " + ("ok" if ok else "FAILED"))
    return 0 if ok else 2



ALL_CHECKS = set(PIE_PROPS.keys())
ENGINE_OF = {}
TECHNIQUE_OF = {}
NOT_YET = {}


# ------------------------------------------------------------------------------------------------ design-level model checking

MC_DEFAULT = dict(NT=2, NR=1, NV=2, NA=2, LEN=2, Family="WF", Writer=[0], RChks=["eq"], OChks=["eq"], WChks=["eq"],
                  Fs=[0, 2], MaxSessions=2, MaxChanges=1, MaxRoots=1, MaxBU=0, CheckLeftoverOfAborted=False,
                  EdgeReinsertMovesToBack=False, EmitScenarios=False, Conform=False, MidSession=False, Retry=False)

# name -> parameter overrides.  Quick configurations finish in well under a minute each.
MC_CONFIGS = {
    # top-down
    "td_2t1r": dict(RChks=["eq", "par"], MaxSessions=3, MaxChanges=2),
    "td_coarse": dict(RChks=["eq", "par", "any"], OChks=["eq", "res"], Fs=[2], MaxSessions=2, MaxChanges=1),
    "td_gen": dict(NR=2, Writer=[0, 2], Fs=[2], MaxSessions=2, MaxChanges=1),
    "td_near": dict(RChks=["eq", "near"], OChks=["near", "eq"], NV=3, Fs=[3], MaxSessions=3, MaxChanges=2),
    "bu_near": dict(RChks=["near"], OChks=["near"], NV=3, Fs=[3], MaxSessions=4, MaxChanges=2, MaxBU=2),
    "td_2t2r_gen": dict(NR=2, Writer=[0, 2], MaxSessions=2, MaxChanges=1),
    "td_3t1r": dict(NT=3, LEN=2, Fs=[2], MaxSessions=2, MaxChanges=1),
    "td_twice": dict(LEN=3, Fs=[2], MaxSessions=2, MaxChanges=1),
    "td_mid": dict(MidSession=True, Fs=[2], MaxSessions=2, MaxChanges=1, MaxRoots=2),
    "twochk_1t1r": dict(Family="TWOCHK", NT=1, LEN=3, RChks=["eq", "par"], Fs=[2], MaxSessions=3, MaxChanges=2),
    "twochk_2t1r": dict(Family="TWOCHK", LEN=2, RChks=["eq", "par"], OChks=["eq", "res"], Fs=[2], MaxSessions=2, MaxChanges=1),
    "td_2t2r_wide": dict(NR=2, Writer=[0, 0], RChks=["eq", "par"], MaxSessions=2, MaxChanges=1),
    # bottom-up
    "bu_2t1r": dict(MaxSessions=3, MaxChanges=1, MaxBU=1, Fs=[2]),
    "bu_2t1r_mixed": dict(MaxSessions=4, MaxChanges=1, MaxBU=1, MaxRoots=2, Fs=[2]),
    "bu_2t2r_gen": dict(NR=2, Writer=[0, 2], MaxSessions=3, MaxChanges=1, MaxBU=1, Fs=[2]),
    "bu_3t1r": dict(NT=3, MaxSessions=3, MaxChanges=1, MaxBU=1, Fs=[2]),
    # injected violations, role changes, aborts, checker faults
    "inj_2t2r": dict(Family="INJ", NR=2, Writer=[0, 2], Fs=[2], MaxSessions=2, MaxChanges=0),
    "inj_2t2r_bu": dict(Family="INJ", NR=2, Writer=[0, 2], Fs=[2], MaxSessions=3, MaxChanges=1, MaxBU=1),
    "role_2t1r": dict(Family="ROLE", NR=1, Fs=[2], MaxSessions=3, MaxChanges=2),
    "role_2t2r": dict(Family="ROLE", NR=2, Writer=[0, 0], Fs=[2], MaxSessions=2, MaxChanges=1),
    "abort_2t1r": dict(Family="ABORT", Fs=[2], MaxSessions=3, MaxChanges=0),
    # the caller keeps the session after a caught top-down panic and requires again in it (two roots per session)
    "abort_retry_2t1r": dict(Family="ABORT", Fs=[2], MaxSessions=2, MaxChanges=0, MaxRoots=2, Retry=True),
    "abort_2t2r_gen": dict(Family="ABORT", NR=2, Writer=[0, 2], Fs=[2], MaxSessions=3, MaxChanges=0),
    "fault_2t1r": dict(Family="FAULT", RChks=["eqF"], Fs=[2], MaxSessions=2, MaxChanges=1),
    "fault_2t1r_bu": dict(Family="FAULT", RChks=["eqF"], Fs=[2], MaxSessions=3, MaxChanges=2, MaxBU=1),
    # wide universes for simulation only
    "sim_wf": dict(NT=4, NR=3, Writer=[0, 0, 3], NV=3, NA=3, LEN=3, RChks=["eq", "par", "ex", "near"], OChks=["eq", "res", "okeq", "near"], Fs=[3],
                   MaxSessions=5, MaxChanges=4, MaxRoots=2, MaxBU=2),
    "sim_inj": dict(Family="INJ", NT=3, NR=3, Writer=[0, 0, 3], NV=3, NA=3, LEN=3, Fs=[3], MaxSessions=4, MaxChanges=2, MaxRoots=2, MaxBU=1),
    "sim_role": dict(Family="ROLE", NT=3, NR=2, Writer=[0, 0], NV=2, NA=3, LEN=3, Fs=[2], MaxSessions=4, MaxChanges=3, MaxRoots=2),
    "sim_abort": dict(Family="ABORT", NT=3, NR=3, Writer=[0, 0, 3], NV=3, NA=3, LEN=3, Fs=[3], MaxSessions=5, MaxChanges=2, MaxRoots=2, MaxBU=1),
    "sim_fault": dict(Family="FAULT", NT=3, NR=3, Writer=[0, 0, 3], NV=3, NA=3, LEN=3, RChks=["eqF", "eq"], WChks=["eq", "eqF"], Fs=[3],
                      MaxSessions=5, MaxChanges=4, MaxRoots=2, MaxBU=1),
}

# per property: exhaustive design configurations (quick, additional thorough) and the simulation universe whose
# behaviours are replayed on the implementation
PROP_DESIGN = {
    "C01": (["td_3t1r", "td_gen"], ["td_2t1r", "td_2t2r_gen", "td_2t2r_wide"], "sim_wf"),
    "C02": (["td_twice", "td_mid", "td_3t1r"], ["td_2t1r", "td_2t2r_wide"], "sim_wf"),
    "C03": (["bu_2t1r", "bu_2t1r_mixed"], ["bu_2t2r_gen", "bu_3t1r"], "sim_wf"),
    "C04": (["bu_2t1r", "bu_2t1r_mixed"], ["bu_2t2r_gen", "bu_3t1r"], "sim_wf"),
    "C05": (["inj_2t2r"], ["inj_2t2r_bu"], "sim_inj"),
    "C06": (["inj_2t2r"], ["inj_2t2r_bu", "td_2t2r_gen"], "sim_inj"),
    "C07": (["inj_2t2r"], ["inj_2t2r_bu"], "sim_inj"),
    "C08": (["td_twice", "td_gen", "twochk_1t1r"], ["td_2t2r_gen", "bu_2t2r_gen", "twochk_2t1r"], "sim_wf"),
    "C09": (["td_coarse", "td_near"], ["td_2t1r", "bu_2t2r_gen", "bu_near"], "sim_wf"),
    "C15": ([], [], None),
    "C17": (["bu_2t1r"], ["bu_2t2r_gen", "inj_2t2r_bu"], "sim_wf"),
    "C18": (["fault_2t1r"], ["fault_2t1r_bu"], "sim_fault"),
    "C19": (["abort_retry_2t1r", "abort_2t1r"], ["abort_2t2r_gen"], "sim_abort"),
    "C20": (["role_2t1r"], ["role_2t2r"], "sim_role"),
}


def tla_val(v):
    if isinstance(v, bool):
        return "TRUE" if v else "FALSE"
    if isinstance(v, int):
        return str(v)
    if isinstance(v, str):
        return '"%s"' % v
    raise ValueError(v)


def run_mc(name, overrides=None, workers=None, timeout=1800, simulate=None, extra_inv="", seed=None):
    """Model-checks Pie.tla under the named configuration; returns TLC statistics and the violated invariant if any."""
    params = dict(MC_DEFAULT)
    params.update(MC_CONFIGS.get(name, {}))
    if overrides:
        params.update(overrides)
    d = os.path.join(WORK, "mc")
    os.makedirs(d, exist_ok=True)
    mod = "MC_" + name
    with open(os.path.join(d, mod + ".tla"), "w") as f:
        f.write("---- MODULE %s ----\nEXTENDS Pie\n" % mod)
        f.write("MCWriter == <<%s>>\n" % ", ".join(str(x) for x in params["Writer"]))
        for k in ("RChks", "OChks", "WChks"):
            f.write("MC%s == {%s}\n" % (k, ", ".join('"%s"' % x for x in params[k])))
        f.write("MCFs == {%s}\n====\n" % ", ".join(str(x) for x in params["Fs"]))
    cfg = os.path.join(d, mod + ".cfg")
    with open(cfg, "w") as f:
        f.write("SPECIFICATION Spec\nCONSTANTS\n")
        for k in ("NT", "NR", "NV", "NA", "LEN", "Family", "MaxSessions", "MaxChanges", "MaxRoots", "MaxBU",
                  "CheckLeftoverOfAborted", "EdgeReinsertMovesToBack", "EmitScenarios", "Conform", "MidSession", "Retry"):
            f.write("  %s = %s\n" % (k, tla_val(params[k])))
        for k in ("Writer", "RChks", "OChks", "WChks", "Fs"):
            f.write("  %s <- MC%s\n" % (k, k))
        f.write("INVARIANTS NoViolation BoundedStack ConsistentHaveOutput StoreWellFormed RanksRespectEdges KnownOnly Progress %s\nVIEW view\nCHECK_DEADLOCK FALSE\n" % extra_inv)
    md = os.path.join(d, "md_" + name)
    shutil.rmtree(md, ignore_errors=True)
    e = dict(os.environ)
    e["JAVA_TOOL_OPTIONS"] = "-Xss512m -XX:+UseParallelGC -Xmx12g -DTLA-Library=%s" % SPEC
    w = workers or max(2, min(12, NCPU - 4))
    cmd = ["timeout", str(timeout), "tlc", "-workers", str(w), "-metadir", md, "-cleanup", "-noGenerateSpecTE"]
    if simulate:
        cmd += ["-simulate", "num=%d" % simulate[0], "-depth", str(simulate[1])]
        if seed is not None:
            cmd += ["-seed", str(seed)]
    cmd += ["-config", cfg, mod + ".tla"]
    t0 = time.time()
    p = subprocess.run(cmd, cwd=d, env=e, stdout=subprocess.PIPE, stderr=subprocess.STDOUT, universal_newlines=True)
    shutil.rmtree(md, ignore_errors=True)
    out = p.stdout
    res = {"name": name, "params": {k: params[k] for k in params}, "wall_s": round(time.time() - t0, 1), "rc": p.returncode,
           "scenario_lines": [l for l in out.split("\n") if l.startswith('"{')] if params.get("EmitScenarios") else [],
           "distinct": 0, "generated": 0, "depth": 0}
    mm = re.search(r"(\d+) states generated, (\d+) distinct states found", out)
    if mm:
        res["generated"], res["distinct"] = int(mm.group(1)), int(mm.group(2))
    mm = re.search(r"The number of states generated: (\d+)", out)
    if mm:
        res["generated"] = int(mm.group(1))
    mm = re.search(r"depth of the complete state graph search is (\d+)", out)
    if mm:
        res["depth"] = int(mm.group(1))
    mm = re.search(r"Invariant (\w+) is violated", out)
    res["violated"] = mm.group(1) if mm else None
    res["completed"] = "Model checking completed. No error has been found." in out
    if not res["completed"] and not res["violated"]:
        res["error_tail"] = out[-1500:]
    if res["violated"]:
        km = re.findall(r"/\\ kfs = (\{[^\n]*\})", out)
        res["kfs"] = km[-1] if km else ""
        vm = re.findall(r"/\\ viol = (\{[^\n]*\})", out)
        res["viol"] = vm[-1] if vm else ""
        res["trace_tail"] = out[-6000:]
    return res


def scenario_from_rec(rec, sid):
    nt, nr, na, ln = rec["nt"], rec["nr"], rec["na"], rec["len"]
    prog = [[[{"k": "ret", "x": 0, "c": "", "f": 0} for _ in range(na)] for _ in range(ln + 1)] for _ in range(nt)]
    for e in rec["prog"]:
        prog[e["t"] - 1][e["pc"]][e["acc"]] = e["op"]
    init = [-1] * nr
    hist = []
    for h in rec["hist"]:
        if h["s"] == "init":
            init = h["v"]
        elif h["s"] == "boom_clr":
            hist.append({"s": "boom_clr"})
        else:
            hist.append(h)
    return {"id": sid, "family": rec["family"], "nt": nt, "nr": nr, "nv": rec["nv"], "na": na, "len": ln, "ttype": [0] * nt,
            "tnum": list(range(1, nt + 1)), "rtype": [0] * nr, "rnum": list(range(1, nr + 1)), "writer": rec["writer"], "prog": prog,
            "init": init, "hist": hist, "note": "behaviour of Pie.tla explored by TLC"}


def sample_design_scenarios(r, name, n, seed):
    """Uniform sample of the complete behaviours an exhaustive design-level run printed (EmitScenarios)."""
    import random
    lines = sorted(set(r.get("scenario_lines", [])))
    random.Random(seed).shuffle(lines)
    out = []
    for line in lines[:n]:
        try:
            rec = json.loads(json.loads(line))
        except Exception:
            continue
        out.append(scenario_from_rec(rec, "mc-%s-%d-%d" % (name, seed, len(out))))
    return out, len(lines)


def tlc_scenarios(name, overrides, num, depth, seed, cap=150):
    """Spec -> implementation: lets TLC simulate the operational spec and returns the explored (program, history) pairs as
    harness scenarios (undefined program entries become `ret 0`; the trace spec reports reaching one)."""
    o = dict(overrides)
    o["EmitScenarios"] = True
    r = run_mc(name, o, workers=1, timeout=1800, simulate=(num, depth), seed=seed)
    if r["violated"]:
        return r, []
    seen = set()
    scns = []
    for line in r["scenario_lines"]:
        try:
            rec = json.loads(json.loads(line))
        except Exception:
            continue
        key = json.dumps(rec, sort_keys=True)
        if key in seen:
            continue
        seen.add(key)
        nt, nr, na, ln = rec["nt"], rec["nr"], rec["na"], rec["len"]
        prog = [[[{"k": "ret", "x": 0, "c": "", "f": 0} for _ in range(na)] for _ in range(ln + 1)] for _ in range(nt)]
        for e in rec["prog"]:
            prog[e["t"] - 1][e["pc"]][e["acc"]] = e["op"]
        init = [-1] * nr
        hist = []
        for h in rec["hist"]:
            if h["s"] == "init":
                init = h["v"]
            elif h["s"] == "boom_clr":
                hist.append({"s": "boom_clr"})
            else:
                hist.append(h)
        scns.append({"id": "tlc-%s-%d-%d" % (name, seed, len(scns)), "family": rec["family"], "nt": nt, "nr": nr,
                     "nv": rec["nv"], "na": na, "len": ln, "ttype": [0] * nt, "tnum": list(range(1, nt + 1)),
                     "rtype": [0] * nr, "rnum": list(range(1, nr + 1)), "writer": rec["writer"], "prog": prog,
                     "init": init, "hist": hist, "note": "generated by TLC simulation of Pie.tla"})
        if len(scns) >= cap:
            break
    return r, scns


# ------------------------------------------------------------------------------------------------ DAG (C10, C11)

def run_dagpk(max_nodes, max_ops, data, emit=False, simulate=None, timeout=3000, reinsert=False, tag="q"):
    d = os.path.join(WORK, "mc")
    os.makedirs(d, exist_ok=True)
    cfg = os.path.join(d, "DagPK_%s.cfg" % tag)
    with open(cfg, "w") as f:
        f.write("SPECIFICATION Spec\nCONSTANTS\n  MaxNodes = %d\n  MaxOps = %d\n  Data = {%s}\n  ReinsertMovesToBack = %s\n  EmitSequences = %s\n"
                % (max_nodes, max_ops, ", ".join(str(x) for x in data), tla_val(reinsert), tla_val(emit)))
        f.write("INVARIANTS C10_Ranks C10_Acyclic C10_Result C10_LiveAgree C11_Encodings C11_Order C11_Data C11_NoDup\n")
        if not simulate:
            f.write("PROPERTY ResultMatches\n")
        f.write("VIEW view\nCHECK_DEADLOCK FALSE\n")
    extra = ["-simulate", "num=%d" % simulate[0], "-depth", str(simulate[1])] if simulate else []
    r = tlc("DagPK", cfg, workers=1 if simulate else max(2, min(12, NCPU - 4)), timeout=timeout, extra=extra,
            metadir=os.path.join(d, "md_dagpk_" + tag), java_opts="-Xss512m -XX:+UseParallelGC -Xmx12g")
    mm = re.search(r"The number of states generated: (\d+)", r["out"])
    if mm:
        r["generated"] = int(mm.group(1))
    mm = re.search(r"Invariant (\w+) is violated", r["out"])
    r["violated"] = mm.group(1) if mm else None
    r["seq_lines"] = [l for l in r["out"].split("\n") if l.startswith('"{')] if emit else []
    return r


def run_dagind(max_nodes, all_orders, data, timeout=3000, tag="i4"):
    """Inductive step of the DagPK invariants (DagInd.tla): one step of every operation from every state over at most
    max_nodes nodes that satisfies them, i.e. operation sequences of any length."""
    d = os.path.join(WORK, "mc")
    os.makedirs(d, exist_ok=True)
    mod = "MC_DagInd_" + tag
    with open(os.path.join(d, mod + ".tla"), "w") as f:
        f.write("---- MODULE %s ----\nEXTENDS DagInd\n====\n" % mod)
    cfg = os.path.join(d, mod + ".cfg")
    with open(cfg, "w") as f:
        f.write("INIT %s\nNEXT Next\nCONSTANTS\n  MaxNodes = %d\n  MaxOps = 1\n  Data = {%s}\n  ReinsertMovesToBack = FALSE\n  EmitSequences = FALSE\n"
                % ("IndInit" if all_orders else "IndInitLex", max_nodes, ", ".join(str(x) for x in data)))
        f.write("INVARIANTS C10_Ranks C10_Acyclic C10_Result C10_LiveAgree C11_Encodings C11_Order C11_Data C11_NoDup\n")
        f.write("PROPERTY ResultMatches\nVIEW view\nCHECK_DEADLOCK FALSE\n")
    md = os.path.join(d, "md_dagind_" + tag)
    shutil.rmtree(md, ignore_errors=True)
    e = dict(os.environ)
    e["JAVA_TOOL_OPTIONS"] = "-Xss512m -XX:+UseParallelGC -Xmx12g -DTLA-Library=%s" % SPEC
    t0 = time.time()
    p = subprocess.run(["timeout", str(timeout), "tlc", "-workers", str(max(2, min(12, NCPU - 4))), "-metadir", md, "-cleanup", "-noGenerateSpecTE",
                        "-config", cfg, mod + ".tla"], cwd=d, env=e, stdout=subprocess.PIPE, stderr=subprocess.STDOUT, universal_newlines=True)
    shutil.rmtree(md, ignore_errors=True)
    out = p.stdout
    r = {"out": out, "wall_s": round(time.time() - t0, 1), "ok": "Model checking completed. No error has been found." in out,
         "start_states": 0, "generated": 0, "distinct": 0}
    mm = re.search(r"Finished computing initial states: (\d+) distinct", out)
    if mm:
        r["start_states"] = int(mm.group(1))
    mm = re.search(r"(\d+) states generated, (\d+) distinct states found", out)
    if mm:
        r["generated"], r["distinct"] = int(mm.group(1)), int(mm.group(2))
    mm = re.search(r"Invariant (\w+) is violated", out)
    r["violated"] = mm.group(1) if mm else None
    return r


def run_dag_check(prop, tier, seed, replay):
    t0 = time.time()
    build_harness()
    design = []
    seq_file = os.path.join(WORK, "%s.seqs.jsonl" % prop)
    trace_file = os.path.join(WORK, "%s.trace.ndjson" % prop)
    out_file = os.path.join(WORK, "%s.result.json" % prop)
    dagbin = os.path.join(BIN, "dag_run")
    sim = None
    with open(seq_file, "w") as out:
        if replay:
            out.write(json.dumps(json.load(open(replay))["scenario"]) + "\n")
        else:
            confs = [(4, 7, [1, 2], "q4"), (5, 9, [1], "q5")] + ([(5, 11, [1], "t5"), (6, 9, [1], "t6")] if tier == "thorough" else [])
            for (n, o, data, tag) in confs:
                r = run_dagpk(n, o, data, tag=tag)
                if r["violated"] or not r["ok"]:
                    raise ToolError("design-level check DagPK(%d nodes, %d ops) failed (independent of /repo): %s\n%s"
                                    % (n, o, r["violated"], r["out"][-2500:]))
                design.append({"name": "DagPK", "max_nodes": n, "max_ops": o, "data": data, "distinct": r["distinct"],
                               "generated": r["generated"], "wall_s": r["wall_s"]})
            # inductive step: the invariants are preserved from every state that satisfies them (sequences of any length)
            for (n, allo, data, tag) in [(4, True, [1, 2], "i4")] + ([(5, False, [1], "i5")] if tier == "thorough" else []):
                r = run_dagind(n, allo, data, tag=tag)
                if r["violated"] or not r["ok"]:
                    raise ToolError("design-level inductive step DagInd(%d nodes) failed (independent of /repo): %s\n%s"
                                    % (n, r["violated"], r["out"][-2500:]))
                design.append({"name": "DagInd (inductive step of the DagPK invariants, any sequence length)", "max_nodes": n,
                               "insertion_orders": "all" if allo else "one per edge set", "data": data, "start_states": r["start_states"],
                               "distinct": r["distinct"], "generated": r["generated"], "wall_s": r["wall_s"]})
            # spec -> implementation: behaviours of the algorithm model replayed on the real DAG
            num = 300 if tier == "quick" else 5000
            r = run_dagpk(6, 24, [1, 2, 3], emit=True, simulate=(num, 30), tag="sim")
            if r["violated"]:
                raise ToolError("simulation of DagPK raised " + r["violated"])
            k = 0
            for line in r["seq_lines"]:
                try:
                    rec = json.loads(json.loads(line))
                except Exception:
                    continue
                ops = rec["ops"]
                pol = k % 4
                for i, o in enumerate(ops):
                    o["q"] = 2 if pol == 0 else 1 if pol == 1 else (2 if i % 5 == 4 else 0) if pol == 2 else 0
                    for fld in ("a", "b", "d"):
                        o.setdefault(fld, 0)
                if ops:
                    ops[-1]["q"] = 2
                out.write(json.dumps({"id": "tlc-dag-%d-%d" % (seed, k), "ops": ops}) + "\n")
                k += 1
                if k >= (500 if tier == "quick" else 8000):
                    break
            sim = {"behaviours": num, "sequences_replayed": k, "states_generated": r["generated"]}
            part = os.path.join(WORK, prop + ".part.jsonl")
            for j, (n, mx, ops) in enumerate([(250, 6, 30), (80, 9, 60)] if tier == "quick" else [(4000, 6, 40), (1500, 10, 120)]):
                sh([dagbin, "gen", "--n", str(n), "--seed", str(seed * 100 + j), "--max-nodes", str(mx), "--ops", str(ops), "--out", part])
                out.write(open(part).read())
            os.remove(part)
    sh([dagbin, "run", "--seqs", seq_file, "--out", trace_file], timeout=1800)
    if os.path.exists(out_file):
        os.remove(out_file)
    cfg = os.path.join(WORK, "DagTrace.cfg")
    open(cfg, "w").write("SPECIFICATION TSpec\nCONSTANTS\n  MaxNodes = 12\n  MaxOps = 0\n  Data = {1}\n  ReinsertMovesToBack = FALSE\n"
                         "  EmitSequences = FALSE\nPOSTCONDITION Accepted\nCHECK_DEADLOCK FALSE\n")
    r = tlc("DagTrace", cfg, env={"TRACE": trace_file, "OUT": out_file}, workers=1, timeout=3000,
            metadir=os.path.join(WORK, "tlc_dagtrace_" + prop))
    if not r["ok"] or not os.path.exists(out_file):
        raise ToolError("DAG trace validation failed:\n" + r["out"][-3000:])
    res = json.load(open(out_file))
    seqs = load_scenarios(seq_file)
    viol = [v for v in res["viol"] if v[2] == prop]
    rc = 0
    reported = set()
    lines = None
    for d in res.get("drift", [])[:5]:
        print("MODEL-DRIFT: sequence %s: the implementation and the model of the algorithm (DagPK.tla) disagree on %s at trace line %d"
              % (seqs[d[0] - 1]["id"], d[2], d[1]))
    for v in viol:
        sid = seqs[v[0] - 1]["id"]
        if (sid, v[3]) in reported:
            continue
        reported.add((sid, v[3]))
        if lines is None:
            lines = open(trace_file).read().split("\n")
        path = write_replay(prop, v[3], seqs[v[0] - 1], v[1], [lines[v[1] - 1][:2000]])
        print("VIOLATION property=%s replay=%s" % (prop, path))
        print("  formula=%s sequence=%s trace line=%d" % (v[3], sid, v[1]))
        rc = 1
        if len(reported) >= 20:
            break
    coverage = {
        "states": r["distinct"] + sum(d["distinct"] for d in design),
        "transitions": r["generated"] + sum(d["generated"] for d in design) + (sim["states_generated"] if sim else 0),
        "traces_validated_against_impl": res["cnt"]["seqs"],
        "samples": [{"id": s["id"], "ops": s["ops"][:8]} for s in seqs[:2]],
        "evaluations": res["cnt"][prop], "distinct_nontrivial": res["cnt"]["seqs"],
        "rule": "one case = one operation sequence executed on the real pie_graph::DAG; after every operation its result and "
                "(per observation level) every public query for every pair of created nodes is compared by TLC (DagTrace.tla) "
                "with the abstract DAG advanced from the operation arguments alone; every sequence contains insertions and at "
                "least one full observation, so every sequence is non-trivial",
        "events_validated": res["events"], "design_configs": design, "design_simulation": sim,
        "trace_validation": {"distinct": r["distinct"], "generated": r["generated"], "wall_s": r["wall_s"]},
        "violations_other_property_seen": len(res["viol"]) - len(viol), "exhaustive": False,
        "sequences_conforming_to_DagPK": res["cnt"]["seqs"] - len(res.get("drift", [])), "model_drift": len(res.get("drift", [])),
    }
    write_evidence(prop, tier, seed, "model_checking", coverage, time.time() - t0, len(reported),
                   ["the harness dag_run reports faithfully what pie_graph::DAG returned", "TLC evaluates the specification correctly",
                    "DagPK.tla is exhaustive only within the stated node/operation bounds; larger graphs are sampled"])
    print("%s: %d sequences, %d events validated, %d formula evaluations, %d violation(s) [%.0fs]"
          % (prop, res["cnt"]["seqs"], res["events"], res["cnt"][prop], len(reported), time.time() - t0))
    return rc


DAG_PROPS = {"C10", "C11"}
ALL_CHECKS = set(PIE_PROPS.keys()) | DAG_PROPS
ENGINE_OF.update({"C10": "dag-trace", "C11": "dag-trace"})
TECHNIQUE_OF.update({p: "TLA+ model of the Pearce-Kelly DAG (DagPK.tla) checked exhaustively by TLC + TLC trace validation (DagTrace.tla) of operation sequences executed on pie_graph::DAG" for p in DAG_PROPS})


# ------------------------------------------------------------------------------------------------ small models (C12, C13, C14)

UNIT_PROPS = {
    # prop: (suite, quick n, thorough n, model invariants checked at design level)
    "C12": ("checkers", 1, 1, ["C12_Model", "C12_Reflexive"]),
    "C14": ("map", 400, 6000, []),
}


def run_unit_trace(trace_file, out_file, tag):
    cfg = os.path.join(WORK, "UnitTrace_%s.cfg" % tag)
    open(cfg, "w").write("SPECIFICATION Spec\nCONSTANT EdgeReinsertMovesToBack = FALSE\nPOSTCONDITION Accepted\nCHECK_DEADLOCK FALSE\n")
    if os.path.exists(out_file):
        os.remove(out_file)
    r = tlc("UnitTrace", cfg, env={"TRACE": trace_file, "OUT": out_file}, workers=1, timeout=3000,
            metadir=os.path.join(WORK, "tlc_unit_" + tag))
    if not r["ok"] or not os.path.exists(out_file):
        raise ToolError("unit trace validation failed:\n" + r["out"][-3000:])
    res = json.load(open(out_file))
    res["tlc"] = {k: r[k] for k in ("distinct", "generated", "wall_s")}
    return res


def run_unit_model(invs, tag):
    if not invs:
        return None
    cfg = os.path.join(WORK, "UnitModel_%s.cfg" % tag)
    open(cfg, "w").write("SPECIFICATION ModelSpec\nCONSTANT EdgeReinsertMovesToBack = FALSE\nINVARIANTS %s\nCHECK_DEADLOCK FALSE\n" % " ".join(invs))
    r = tlc("UnitTrace", cfg, workers=1, timeout=600, metadir=os.path.join(WORK, "tlc_unitmodel_" + tag))
    if not r["ok"]:
        raise ToolError("design-level check of the small model failed (independent of /repo):\n" + r["out"][-2500:])
    return {"invariants": invs, "distinct": r["distinct"], "generated": r["generated"], "wall_s": r["wall_s"]}


def run_unit_check(prop, tier, seed, replay):
    t0 = time.time()
    suite, nq, nth, invs = UNIT_PROPS[prop]
    build_harness()
    model = run_unit_model(invs, prop)
    trace_file = os.path.join(WORK, "%s.trace.ndjson" % prop)
    out_file = os.path.join(WORK, "%s.result.json" % prop)
    n = nq if tier == "quick" else nth
    useed = seed
    if replay:
        rp = json.load(open(replay))
        useed, n = rp["scenario"]["seed"], rp["scenario"]["n"]
    sh([os.path.join(BIN, "unit_run"), suite, "--seed", str(useed), "--n", str(n), "--out", trace_file, "--dir",
        os.path.join(WORK, "files_" + prop)], timeout=3000)
    res = run_unit_trace(trace_file, out_file, prop)
    viol = [v for v in res["viol"] if v[1] == prop]
    lines = open(trace_file).read().split("\n")
    rc = 0
    reported = set()
    for v in viol:
        if v[2] in reported:
            continue
        reported.add(v[2])
        path = write_replay(prop, v[2], {"id": "%s-%d" % (suite, useed), "suite": suite, "seed": useed, "n": n}, v[0],
                            lines[max(0, v[0] - 6):v[0]])
        print("VIOLATION property=%s replay=%s" % (prop, path))
        print("  formula=%s trace line=%d: %s" % (v[2], v[0], lines[v[0] - 1][:300]))
        rc = 1
    samples = [json.loads(l) for l in lines[1:4] if l.strip()]
    runs = sum(1 for l in lines if l.startswith('{"ev":"reset"'))
    coverage = {
        "states": res["tlc"]["distinct"] + (model["distinct"] if model else 0),
        "transitions": res["tlc"]["generated"] + (model["generated"] if model else 0),
        "traces_validated_against_impl": runs, "samples": samples,
        "evaluations": res["evaluations"], "distinct_nontrivial": res["evaluations"],
        "rule": "one case = one logged call/operation of the real code with its arguments and result, compared by TLC "
                "(UnitTrace.tla) with the small model of UnitModels.tla; every logged case carries a result to compare, so "
                "every case is non-trivial",
        "design_model": model, "trace_validation": res["tlc"],
        "exhaustive": prop == "C12",
        "violations_other_property_seen": len(res["viol"]) - len(viol),
    }
    write_evidence(prop, tier, seed, "model_checking", coverage, time.time() - t0, len(reported),
                   ["the harness unit_run logs arguments and results faithfully", "TLC evaluates the specification correctly"])
    print("%s: %d runs, %d events validated, %d violation(s) [%.0fs]" % (prop, runs, res["events"], len(reported), time.time() - t0))
    return rc


ALL_CHECKS |= set(UNIT_PROPS.keys())
for _p in UNIT_PROPS:
    ENGINE_OF[_p] = "unit-trace"
    TECHNIQUE_OF[_p] = "TLA+ small model (UnitModels.tla) + TLC validation (UnitTrace.tla) of every logged call of the real code"


# ------------------------------------------------------------------------------------------------ C16 determinism

def trace_eq(a, b, tag):
    out_file = os.path.join(WORK, "C16.%s.json" % tag)
    if os.path.exists(out_file):
        os.remove(out_file)
    cfg = os.path.join(WORK, "TraceEq.cfg")
    open(cfg, "w").write("SPECIFICATION Spec\nPOSTCONDITION Accepted\nCHECK_DEADLOCK FALSE\n")
    r = tlc("TraceEq", cfg, env={"TRACE": a, "TRACE2": b, "OUT": out_file}, workers=1, timeout=3000,
            metadir=os.path.join(WORK, "tlc_eq_" + tag))
    if not os.path.exists(out_file):
        raise ToolError("trace comparison failed:\n" + r["out"][-3000:])
    res = json.load(open(out_file))
    res["tlc"] = {k: r[k] for k in ("distinct", "generated", "wall_s")}
    return res


def run_det_check(prop, tier, seed, replay):
    t0 = time.time()
    build_harness()
    scn_file = os.path.join(WORK, "C16.scn.jsonl")
    with open(scn_file, "w") as out:
        if replay:
            out.write(json.dumps(json.load(open(replay))["scenario"]) + "\n")
        else:
            for c in ["known_findings.jsonl"]:
                out.write(open(os.path.join(SCEN, c)).read())
            part = os.path.join(WORK, "C16.part.jsonl")
            for k, (fam, nq, nth, opts) in enumerate([("WF", 100, 2000, dict(max_t=8, max_r=5, steps=7)), ("WF", 60, 1000, dict(max_t=5, max_r=4, steps=7)),
                                                      ("ROLE", 20, 300, dict(max_t=4)), ("ABORT", 20, 300, {})]):
                gen_scenarios(fam, nq if tier == "quick" else nth, seed * 1000 + 50 + k, part, **opts)
                out.write(open(part).read())
            os.remove(part)
    t1 = os.path.join(WORK, "C16.trace.ndjson")
    tp = os.path.join(WORK, "C16.trace.proc2.ndjson")
    run_scenarios(scn_file, t1, repeat=3)      # three fresh instances in one process
    run_scenarios(scn_file, tp, repeat=1)      # and a second process
    scns = load_scenarios(scn_file)
    rc = 0
    reported = set()
    stats = []
    lines = None
    for tag, other in (("inproc2", t1 + ".2"), ("inproc3", t1 + ".3"), ("proc2", tp)):
        res = trace_eq(t1, other, tag)
        stats.append({"replay": tag, "events": res["eventsA"], "differing_runs": len(res["diffs"]), "tlc": res["tlc"]})
        for d in res["diffs"]:
            scn = scns[d[0] - 1]
            if scn["id"] in reported:
                continue
            reported.add(scn["id"])
            if lines is None:
                lines = open(t1).read().split("\n")
            olines = open(other).read().split("\n")
            path = write_replay(prop, "replays_differ", scn, d[1], [lines[d[1] - 1][:1500], olines[d[1] - 1][:1500] if d[1] - 1 < len(olines) else "<missing>"])
            print("VIOLATION property=%s replay=%s" % (prop, path))
            print("  replays of scenario %s differ at event %d (%s)" % (scn["id"], d[1], tag))
            rc = 1
            if len(reported) >= 20:
                break
    for f in (t1 + ".2", t1 + ".3"):
        if os.path.exists(f):
            os.remove(f)
    multi = sum(1 for s in scns if s["nt"] >= 3)
    coverage = {
        "states": sum(s["tlc"]["distinct"] for s in stats), "transitions": sum(s["tlc"]["generated"] for s in stats),
        "traces_validated_against_impl": len(scns) * 4, "samples": [summarize_scn(s) for s in scns[5:7]],
        "evaluations": sum(s["events"] for s in stats), "distinct_nontrivial": multi,
        "rule": "one case = one scenario replayed four times on fresh Pie instances (three in one process, one in a second process); "
                "TLC (TraceEq.tla) compares the complete recorded streams event by event; non-trivial = scenarios with at least three tasks",
        "comparisons": stats, "exhaustive": False,
    }
    write_evidence(prop, tier, seed, "model_checking", coverage, time.time() - t0, len(reported),
                   ["every order-relevant container gets a fresh RandomState per instance (std HashMap/HashSet defaults)",
                    "the harness itself is deterministic"])
    print("%s: %d scenarios x 4 replays, %d events compared, %d violation(s) [%.0fs]" % (prop, len(scns), coverage["evaluations"], len(reported), time.time() - t0))
    return rc


UNIT_PROPS["C13"] = ("files", 150, 3000, [])
ALL_CHECKS |= {"C13", "C16"}
ENGINE_OF["C13"] = "unit-trace"
TECHNIQUE_OF["C13"] = TECHNIQUE_OF["C14"]
ENGINE_OF["C16"] = "trace-eq"
TECHNIQUE_OF["C16"] = "differential replay decided by TLC (TraceEq.tla): complete event streams of four replays must be identical"


# ------------------------------------------------------------------------------------------------ conformance with Pie.tla

def run_conform(trace_file, dims, tag, timeout=1800):
    """Checks that every recorded run in trace_file (all of dimensions dims = (nt, nr, nv, na, len)) is a behaviour of Pie.tla.
    Returns (consumed_line, completed_runs, total_lines, tlc result)."""
    d = os.path.join(WORK, "mc")
    os.makedirs(d, exist_ok=True)
    mod = "MC_conform_" + tag
    nt, nr, nv, na, ln = dims
    with open(os.path.join(d, mod + ".tla"), "w") as f:
        f.write("---- MODULE %s ----\nEXTENDS PieConform\n" % mod)
        f.write("MCWriter == <<%s>>\nMCRChks == {\"eq\"}\nMCOChks == {\"eq\"}\nMCWChks == {\"eq\"}\nMCFs == {0}\n====\n" % ", ".join("0" for _ in range(nr)))
    cfg = os.path.join(d, mod + ".cfg")
    with open(cfg, "w") as f:
        f.write("SPECIFICATION CSpec\nCONSTANTS\n  NT = %d\n  NR = %d\n  NV = %d\n  NA = %d\n  LEN = %d\n" % (nt, nr, nv, na, ln))
        f.write('  Family = "WF"\n  MaxSessions = 1000\n  MaxChanges = 1000\n  MaxRoots = 1000\n  MaxBU = 1000\n')
        f.write("  CheckLeftoverOfAborted = FALSE\n  EdgeReinsertMovesToBack = FALSE\n  EmitScenarios = FALSE\n  Conform = TRUE\n  MidSession = FALSE\n  Retry = FALSE\n")
        for k in ("Writer", "RChks", "OChks", "WChks", "Fs"):
            f.write("  %s <- MC%s\n" % (k, k))
        f.write("VIEW cview\nPOSTCONDITION AllConsumed\nCHECK_DEADLOCK FALSE\n")
    md = os.path.join(d, "md_conform_" + tag)
    shutil.rmtree(md, ignore_errors=True)
    e = dict(os.environ)
    e["JAVA_TOOL_OPTIONS"] = "-Xss512m -XX:+UseParallelGC -Xmx8g -DTLA-Library=%s" % SPEC
    e["TRACE"] = trace_file
    t0 = time.time()
    p = subprocess.run(["timeout", str(timeout), "tlc", "-workers", "1", "-metadir", md, "-cleanup", "-noGenerateSpecTE", "-config", cfg, mod + ".tla"],
                       cwd=d, env=e, stdout=subprocess.PIPE, stderr=subprocess.STDOUT, universal_newlines=True)
    shutil.rmtree(md, ignore_errors=True)
    out = p.stdout
    mm = re.search(r'<<"CONFORM", (\d+), (\d+), (\d+)>>', out)
    if not mm:
        raise ToolError("conformance run failed:\n" + out[-3000:])
    sm = re.search(r"(\d+) states generated, (\d+) distinct states found", out)
    # per-action counts of the operational specification along the implementation's traces (vacuity guard)
    acts = {}
    ai = out.find('"ACTIONS"')
    if ai >= 0:
        for a in re.finditer(r'<<"(\w+)",\s*(\d+)>>', out[ai:ai + 4000]):
            acts[a.group(1)] = int(a.group(2))
    return int(mm.group(1)), int(mm.group(2)), int(mm.group(3)), {"distinct": int(sm.group(2)) if sm else 0, "generated": int(sm.group(1)) if sm else 0,
                                                                   "wall_s": round(time.time() - t0, 1), "pie_actions_taken": acts}


LEVEL_NOTE = {
    "pie-trace": "Three uses of one specification: (A) the monitors are model-checked exhaustively on the operational spec Pie.tla (lazily generated programs, "
                 "2-3 tasks, bounds in evidence.design_configs); (B) TLC-simulated behaviours of Pie.tla are replayed on the real library; (C) every recorded run "
                 "(TLC-generated, seeded random up to 8 tasks, curated) is validated event by event by TLC against PieTrace.tla, and fixed-dimension batches "
                 "must be exact behaviours of Pie.tla (PieConform.tla; deviations are MODEL-DRIFT warnings). Trusted base: TLC, the specification, the Rust "
                 "harness (interpreter task, instrumented resource/checkers/tracker). Bounded, no unbounded proof.",
    "dag-trace": "DagPK.tla (algorithm as written) model-checked against DagCore.tla for all operation sequences within node/operation bounds, and by an inductive step (DagInd.tla: one step of every operation from every invariant state of at most 4-5 nodes, i.e. sequences of any length); TLC-simulated and "
                 "random operation sequences executed on pie_graph::DAG are validated by TLC against the abstract DAG and compared with DagPK's exact ranks. "
                 "Trusted base: TLC, the specification, harness dag_run. Bounded.",
    "unit-trace": "Small TLA+ model advanced from the arguments of the logged calls; every result of the real code compared by TLC. Trusted base: TLC, the "
                  "specification, harness unit_run; C13 additionally the sandbox filesystem.",
    "trace-eq": "Complete recorded streams of four replays compared by TLC; Pie.tla itself has no choice left once program and history are fixed (ranks are part "
                "of the model). Trusted base: TLC, the deterministic harness.",
}
