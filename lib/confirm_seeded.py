#!/usr/bin/env python3
"""Confirms a seeded change delivered by a sub-agent in a scratch worktree and files it under /verif/seeded/<id>/.

usage: confirm_seeded.py <prop> <variant> [<worktree>]
  reads /tmp/wtout/<prop>/<variant>/{patch.diff,demo.rs,meta.txt}
Steps (all in the scratch worktree, never in /repo):
  1. clean tree: demo passes
  2. patch applied: existing suite passes (40 tests), demo fails
  3. tree restored
"""
import json
import os
import re
import shutil
import subprocess
import sys

prop, variant = sys.argv[1], sys.argv[2]
wt = sys.argv[3] if len(sys.argv) > 3 else "%s/%s" % (os.environ.get("SEED_WT", "/tmp/wt"), prop)
src = "%s/%s/%s" % (os.environ.get("SEED_SRC", "/tmp/wtout"), prop, variant)
# second-round variants are filed as C and D
label = {"A": "C", "B": "D"}[variant] if os.environ.get("SEED_ROUND") == "2" else {"A": "E", "B": "F"}[variant] if os.environ.get("SEED_ROUND") == "3" else {"A": "G", "B": "H"}[variant] if os.environ.get("SEED_ROUND") == "4" else variant
meta_txt = open(os.path.join(src, "meta.txt")).read()


def sh(cmd, cwd=wt, timeout=1800):
    p = subprocess.run(cmd, cwd=cwd, shell=True, stdout=subprocess.PIPE, stderr=subprocess.STDOUT, universal_newlines=True,
                       timeout=timeout, env=dict(os.environ, CARGO_NET_OFFLINE="true"))
    return p.returncode, p.stdout


m = re.search(r"cargo test[^\n`]*--test\s+([A-Za-z0-9_]+)[^\n`]*", meta_txt)
if not m:
    print("cannot find demo command in meta.txt")
    sys.exit(2)
demo_cmd = m.group(0).strip().rstrip(".;)")
name = m.group(1)
if "--offline" not in demo_cmd:
    demo_cmd += " --offline"
pm = re.search(r"((?:pie|graph|dev_ext|dev_util)/tests/%s\.rs)" % re.escape(name), meta_txt)
place = pm.group(1) if pm else ("graph/tests/%s.rs" % name if "-p pie_graph" in demo_cmd else "pie/tests/%s.rs" % name)

res = {"property": prop, "variant": variant, "demo_cmd": demo_cmd, "demo_place": place}
sh("git checkout -q -- . && git clean -fdq -e target")
# 1. patched tree, without the demo file: the existing suite
rc, out = sh("git apply %s/patch.diff" % src)
res["patch_applies"] = rc == 0
if rc == 0:
    rc, out = sh("cargo test --workspace --no-fail-fast --offline --lib --bins --tests 2>&1 | grep -E '^test result' ")
    res["suite_passed_with_patch"] = sum(int(x) for x in re.findall(r"(\d+) passed", out))
    res["suite_failed_with_patch"] = sum(int(x) for x in re.findall(r"(\d+) failed", out))
    # 2. patched tree with the demo
    os.makedirs(os.path.join(wt, os.path.dirname(place)), exist_ok=True)
    shutil.copy(os.path.join(src, "demo.rs"), os.path.join(wt, place))
    rc2, out2 = sh(demo_cmd)
    res["patched_demo_fails"] = rc2 != 0 and "test result: FAILED" in out2
    # 3. clean tree with the demo
    sh("git checkout -q -- .")
    rc3, out3 = sh(demo_cmd)
    res["clean_demo_passes"] = rc3 == 0
sh("git checkout -q -- . && git clean -fdq -e target")
ok = res.get("clean_demo_passes") and res.get("patch_applies") and res.get("patched_demo_fails") \
    and res.get("suite_failed_with_patch") == 0 and res.get("suite_passed_with_patch", 0) >= 40
res["confirmed"] = bool(ok)
dst = "/verif/seeded/%s%s" % (prop, label)
if ok:
    os.makedirs(dst, exist_ok=True)
    shutil.copy(os.path.join(src, "patch.diff"), dst)
    shutil.copy(os.path.join(src, "demo.rs"), dst)
    shutil.copy(os.path.join(src, "meta.txt"), os.path.join(dst, "agent_notes.txt"))
    needs = ""
    nm = re.search(r"(?is)(needs[^\n]*\n(?:.*\n){0,6})", meta_txt)
    if nm:
        needs = nm.group(1).strip()[:600]
    json.dump({"breaks_property": prop, "needs_to_manifest": needs,
               "what_was_run": {"worktree": wt, "demo_place": place, "demo_cmd": demo_cmd,
                                "clean_tree_demo": "pass", "patched_suite": "%d passed, 0 failed" % res["suite_passed_with_patch"],
                                "patched_demo": "fail"},
               "detected_by": []}, open(os.path.join(dst, "meta.json"), "w"), indent=1)
print(json.dumps(res))
