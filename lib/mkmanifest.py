#!/usr/bin/env python3
"""Regenerates /verif/MANIFEST.json from the table of registered checks (single source of truth)."""
import json, os, sys
sys.path.insert(0, os.path.dirname(os.path.abspath(__file__)))
import vlib

VERIF = vlib.VERIF
props = [json.loads(l) for l in open(os.path.join(VERIF, "properties.jsonl"))]

TEXT = {
 "C01": ("6.C01", "Trace validation (TLC, PieTrace.tla): every root require of every generated well-formed scenario executed on the real library is compared with the independent from-scratch oracle Scratch (PieCore.tla) evaluated by TLC on the scenario's program and the resource state at session start; outputs and contents of written resources must agree."),
 "C02": ("6.C02", "Trace validation with monitor formulas: at-most-once per session, every execution justified by a model-evaluated inconsistent/failed dependency check or a missing output, idempotence, validation in first-access order of the latest execution, and (exact checkers) executed set contained in the from-scratch visited set."),
 "C03": ("6.C03", "Trace validation: after every bottom-up build whose reported set covers all external changes, a probe session requires every known task; any execution or any output differing from the from-scratch oracle is a violation (K1 recorded finding: stale requirer after top-down-then-bottom-up)."),
 "C04": ("6.C04", "Trace validation of bottom-up builds: at most one execution per task and build, every scheduling justified by a model-evaluated inconsistent dependency, no scheduled task executed before a scheduled task it reaches, cut-off when the checker accepts."),
 "C05": ("6.C05", "Trace validation on scenarios with injected hidden reads/writes: whenever the abstract store (rebuilt from tracker events) says a read/write lacks the transitive require, the very next event must be a Hidden-dependency abort, before any modification; closure invariant at every normal return."),
 "C06": ("6.C06", "Trace validation on scenarios with injected second writers plus well-formed re-executing writers: overlap expected iff a different recorded writer exists; abort before modification for context writes; single writer per resource in abstract store and real store dump; no overlap reported against the same writer."),
 "C07": ("6.C07", "Trace validation on scenarios with injected requires against the static order: requiring a task that is on the execution stack must be followed immediately by a Cyclic abort; no execution in between; recursion guard never trips."),
 "C08": ("6.C08", "Trace validation: the dependencies performed by the interpreter task (its own log, stamps computed by the specification) must equal the abstract store after execute_end and the guarded dump of the real store at every session end; validations and schedulings only over recorded dependencies (K2 recorded finding)."),
 "C09": ("6.C09", "Trace validation of stamp timing and checker use: reader opened, stamped through that very reader, then read; write stamped after the write function on the content as written; require stamped from the returned output; every check uses the dependency's own checker and stamp and agrees with the specification's checker semantics; inconsistent => re-executed/scheduled, consistent => not."),
 "C15": ("6.C15", "Trace validation on scenarios whose tasks/resources are same-valued keys of different Rust types (two newtype families, Box/Rc/Arc wrappers) with identical hash and debug text: per-identity outputs, execution counts and store records must match the specification in which identity is (type, value)."),
 "C17": ("6.C17", "Trace validation: nesting automaton over all 23 tracker methods, executions bracketed by the interpreter's own enter/exit log with the same output, require_end carries the value the caller received, composite children see identical streams, cached outputs equal execute_end outputs."),
 "C18": ("6.C18", "Trace validation on scenarios with error-injecting checkers: a failing check counts as inconsistent (task executed / scheduled, never reused), reported error count equals the failures the specification predicts, builds return, outputs still equal the from-scratch oracle."),
 "C19": ("6.C19", "Trace validation on scenarios with armed crash points (any task, any operation index) and diagnosed violations followed by further sessions: no internal-error panic afterwards, returning sessions satisfy the from-scratch oracle, repeated aborts only for violations the oracle also has."),
 "C20": ("6.C20", "Trace validation on role-changing and well-formed scenarios: every diagnosis abort must be matched by a from-scratch build of all known tasks (in some order) that aborts too; role-inversion patterns K3/K4/K5 are recorded findings."),
 "C10": ("6.C10", "The Pearce-Kelly algorithm as written (DagPK.tla) is model-checked exhaustively against the abstract DAG for all operation sequences within node/operation bounds; operation sequences (TLC-simulated and random, with interleaved removals and operations on removed nodes) are executed on the real pie_graph::DAG and every rank, result and snapshot is validated by TLC (DagTrace.tla): ranks a bijection onto 1..n respecting all edges, cycle rejection exact, rejected operations change nothing."),
 "C11": ("6.C11", "Same exploration as C10 with the query formulas: for every pair of created nodes after every operation, contains_edge, contains_transitive_edge (twice), adjacency in first-insertion order with the data of the first insertion, descendants (sorted and unsorted), topo_cmp and the results of the three removal operations must equal the abstract DAG advanced from the operation arguments alone."),
 "C12": ("6.C12", "Exhaustive: the documented relation Rel (UnitModels.tla) is checked by TLC against the transcription of the code used by the build-level specification for all 5 x 8 x 8 cases, and every case is executed on the real checkers (through the trait and through the object-safe proxy) and validated by TLC (UnitTrace.tla)."),
 "C13": ("6.C13", "A TLA+ model of one filesystem path (absent / file content / directory listing, modification time) is advanced from the harness's actions on real temporary files with explicitly set modification times; stamps through all three routes, reads through stamped readers, checks of earlier stamps and open-for-writing behaviour are validated by TLC; the hash stamp must be a function of the content and injective within a kind (exhaustive sweeps over the content and listing universes plus random walks)."),
 "C14": ("6.C14", "A TLA+ model of the type-indexed resource state (one slot per resource type) and of the map resource on top of it is advanced from operation arguments; random sequences of every ResourceState method with matching and non-matching state types over three resource types, and of every map access/checker route over two key types, are executed on the real code and every returned value is validated by TLC."),
 "C16": ("6.C16", "Differential replay: every scenario is executed four times on fresh Pie instances (fresh hash seeds; in-process and in a second process) and TLC (TraceEq.tla) requires the complete event streams, outputs and store dumps (iteration orders, ranks) to be identical."),
}

checks = []
for p in props:
    pid = p["id"]
    if pid not in vlib.ALL_CHECKS:
        continue
    ref, text = TEXT[pid]
    checks.append({
        "property_id": pid,
        "quick_cmd": "./check %s --tier quick" % pid,
        "thorough_cmd": "./check %s --tier thorough" % pid,
        "evidence_file": "/verif/evidence/%s.json" % pid,
        "replay_cmd_template": "./check %s --replay {path}" % pid,
        "engine": vlib.ENGINE_OF.get(pid, "pie-trace"),
        "level_claimed": {"category": "model_checking", "text": text, "design_ref": ref},
        "level_note": vlib.LEVEL_NOTE.get(vlib.ENGINE_OF.get(pid, "pie-trace")),
        "technique": vlib.TECHNIQUE_OF.get(pid, "TLA+ specification + TLC trace validation of implementation runs"),
    })
pending = [{"property_id": p["id"], "reason": vlib.NOT_YET.get(p["id"], "check not built yet (work in progress)")}
           for p in props if p["id"] not in vlib.ALL_CHECKS]
m = {
 "version": 1,
 "setup_cmd": "./check setup",
 "hooks": {"guard": "gohla_pie_verif",
           "enable": "cargo feature gohla_pie_verif of crate pie, enabled by the path dependency in /verif/harness/Cargo.toml",
           "baseline_off_cmd": "cd /repo && cargo test --workspace --no-fail-fast --offline",
           "source_commits": ["c9aba4a", "ea2c417"], "add_only": True},
 "engines": [
   {"name": "pie-trace", "path": "/verif/spec/PieTrace.tla", "serves_properties": sorted(vlib.PIE_PROPS.keys()),
    "kind_free_text": "TLC trace validation: PieCore (abstract store + from-scratch oracle) and PieMon (property monitors) evaluated on every event recorded by /verif/harness from the real library; the same monitors are model-checked on the operational specification Pie.tla (lazily generated programs) and TLC-simulated behaviours of Pie.tla are replayed on the implementation"},
   {"name": "dag-trace", "path": "/verif/spec/DagTrace.tla", "serves_properties": ["C10", "C11"],
    "kind_free_text": "DagPK.tla (Pearce-Kelly model) model-checked against DagCore.tla; operation sequences executed on pie_graph::DAG validated by TLC"},
   {"name": "unit-trace", "path": "/verif/spec/UnitTrace.tla", "serves_properties": ["C12", "C13", "C14"],
    "kind_free_text": "small TLA+ models (UnitModels.tla) of output checkers, file checkers and typed resource state / map resource; logged calls of the real code validated by TLC"},
   {"name": "trace-eq", "path": "/verif/spec/TraceEq.tla", "serves_properties": ["C16"],
    "kind_free_text": "differential replay compared event by event by TLC"},
 ],
 "checks": checks,
 "notes": "fix: commits in /repo: 0fca12d (F1, C02/C11), 8f330fd (F2, C19), e0e9578 (F4, C13), 9331317 (F3, C17). Known findings (open: K1 C03, K2 C08, K3/K4/K5 C20): /verif/known_findings.json.",
 "not_applicable": pending,
}
json.dump(m, open(os.path.join(VERIF, "MANIFEST.json"), "w"), indent=1)
print("MANIFEST: %d checks, %d pending" % (len(checks), len(pending)))
