#!/usr/bin/env python3
"""Prints the table of DESIGN.md section 12 from seeded/*/meta.json."""
import json, os
V = os.path.dirname(os.path.dirname(os.path.abspath(__file__)))
rows = []
for sid in sorted(os.listdir(os.path.join(V, "seeded"))):
    m = json.load(open(os.path.join(V, "seeded", sid, "meta.json")))
    notes = open(os.path.join(V, "seeded", sid, "agent_notes.txt")).read() if os.path.exists(os.path.join(V, "seeded", sid, "agent_notes.txt")) else ""
    res = m.get("check_results", {})
    det = []
    for p in sorted(res):
        r = res[p]
        if r["exit"] == 1:
            det.append("%s (%s%s)" % (p, ", ".join(r["formulas"][:3]), "" if r.get("tier", "quick") == "quick" else "; thorough tier"))
    missed = [p for p in sorted(res) if res[p]["exit"] != 1]
    rows.append((sid, m["breaks_property"], m.get("summary", ""), "; ".join(det) if det else "—", ", ".join(missed), m.get("remark", "")))
print("| id | breaks | change | caught by (formulas) | not caught by | remark |")
print("|---|---|---|---|---|---|")
for r in rows:
    print("| %s | %s | %s | %s | %s | %s |" % r)
