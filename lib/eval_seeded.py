#!/usr/bin/env python3
"""Runs the registered checks against the seeded changes in /verif/seeded (development aid, DESIGN.md section 12).

usage: eval_seeded.py [<id> ...] [--props C01,C02] [--tier quick]
For every seeded change: git -C %s apply <patch>; run ./check <property> (the property the change breaks, plus any
given with --props); git -C %s checkout -- .  Results are written into seeded/<id>/meta.json ("detected_by") and
printed as a table.  Never commits anything in /repo.
"""
import json
import os
import subprocess
import sys
import time

VERIF = os.path.dirname(os.path.dirname(os.path.abspath(__file__)))
SEEDED = os.path.join(VERIF, "seeded")
REPO = os.environ.get("VERIF_REPO", "/repo")


def sh(cmd, cwd=None):
    p = subprocess.run(cmd, cwd=cwd, shell=True, stdout=subprocess.PIPE, stderr=subprocess.STDOUT, universal_newlines=True)
    return p.returncode, p.stdout


def main():
    args = sys.argv[1:]
    extra = []
    tier = "quick"
    ids = []
    i = 0
    while i < len(args):
        if args[i] == "--props":
            extra = args[i + 1].split(",")
            i += 2
        elif args[i] == "--tier":
            tier = args[i + 1]
            i += 2
        else:
            ids.append(args[i])
            i += 1
    if not ids:
        ids = sorted(os.listdir(SEEDED))
    rc, out = sh("git -C %s status --porcelain --untracked-files=no" % REPO)
    if out.strip():
        print("refusing: /repo has uncommitted changes:\n" + out)
        return 2
    for sid in ids:
        d = os.path.join(SEEDED, sid)
        meta = json.load(open(os.path.join(d, "meta.json")))
        patch = os.path.join(d, "patch.diff")
        rc, out = sh("git -C %s apply %s" % (REPO, patch))
        if rc != 0:
            rc, out = sh("git -C %s apply --3way %s" % (REPO, patch))
            if rc != 0:
                sh("git -C %s checkout -- . ; git -C %s reset -q" % (REPO, REPO))
                print("%-6s patch does not apply to the current tree: %s" % (sid, out.strip()[:200]))
                meta["applies_to_current_tree"] = False
                json.dump(meta, open(os.path.join(d, "meta.json"), "w"), indent=1)
                continue
            sh("git -C %s reset -q" % REPO)
        meta["applies_to_current_tree"] = True
        results = {}
        try:
            for prop in [meta["breaks_property"]] + [p for p in extra if p != meta["breaks_property"]]:
                t0 = time.time()
                rc, out = sh("./check %s --tier %s" % (prop, tier), cwd=VERIF)
                formulas = sorted(set(l.split("formula=")[1].split()[0] for l in out.split("\n") if "formula=" in l))
                results[prop] = {"exit": rc, "violations": out.count("VIOLATION property=%s" % prop), "formulas": formulas[:8],
                                 "tool_error": out.strip().split("\n")[-1][:300] if rc == 2 else "", "wall_s": round(time.time() - t0)}
        finally:
            sh("git -C %s checkout -- ." % REPO)
        # merge with earlier evaluations (other properties / tiers)
        allres = meta.get("check_results", {})
        for pp, r in results.items():
            r["tier"] = tier
            prev = allres.get(pp)
            if prev is None or r["exit"] == 1 or prev.get("exit") != 1:
                allres[pp] = r
        meta["check_results"] = allres
        meta["detected_by"] = sorted(pp for pp, r in allres.items() if r["exit"] == 1)
        json.dump(meta, open(os.path.join(d, "meta.json"), "w"), indent=1)
        print("%-6s breaks %s: %s" % (sid, meta["breaks_property"],
                                       "; ".join("%s exit=%d %s%s" % (p, r["exit"], ",".join(r["formulas"][:4]), (" TOOL: " + r["tool_error"]) if r["tool_error"] else "") for p, r in results.items())))
        sys.stdout.flush()
    rc, out = sh("git -C %s status --porcelain --untracked-files=no" % REPO)
    if out.strip():
        print("WARNING: /repo not clean after evaluation:\n" + out)
    return 0


if __name__ == "__main__":
    sys.exit(main())
