#!/bin/bash
# Evaluates seeded changes in a scratch copy of /verif and a scratch worktree of /repo (outside /repo and /verif), so
# that development in /verif can continue meanwhile.  usage: lib/scratch_eval.sh <eval_seeded args...>
set -e
S=${SCRATCH:-/tmp/ev}
rm -rf $S/verif
mkdir -p $S
if [ ! -d $S/repo ]; then git -C /repo worktree add -q --detach $S/repo HEAD; else git -C $S/repo checkout -q --detach $(git -C /repo rev-parse HEAD); git -C $S/repo checkout -q -- .; fi
rsync -a --exclude work --exclude .git --exclude evidence/replay /verif/ $S/verif/
sed -i "s|/repo/pie|$S/repo/pie|; s|/repo/graph|$S/repo/graph|" $S/verif/harness/Cargo.toml
cd $S/verif && VERIF_REPO=$S/repo python3 lib/eval_seeded.py "$@"
for id in "$@"; do [ -f $S/verif/seeded/$id/meta.json ] && cp $S/verif/seeded/$id/meta.json /verif/work/scratch_meta_$id.json; done; true
