#!/usr/bin/env python3
"""Writes scenarios/bu_shapes.jsonl: hand-designed shapes of the scheduled set of a bottom-up build (C03/C04 quantifier:
independent tasks, chains, diamonds, tasks that change their requires while re-executing).  All programs are well-formed;
values: nv = na = 4, after `rd` of value v (acc 0) the accumulator is (v + 2) % 4, `ret 4` returns acc % 4."""
import json, itertools
NA = 4
def ret(f=4): return {"k": "ret", "x": 0, "c": "", "f": f}
def rd(r, c="eq"): return {"k": "rd", "x": r, "c": c, "f": 0}
def rq(t, c="eq"): return {"k": "rq", "x": t, "c": c, "f": 0}
def wr(r, f=4): return {"k": "wr", "x": r, "c": "eq", "f": f}
def row(op): return [dict(op) for _ in range(NA)]
def rows(*ops, length): return [row(o) for o in ops] + [row(ret()) for _ in range(length + 1 - len(ops))]
def scn(sid, prog, nr, init, hist, writer=None, length=2):
    nt = len(prog)
    return {"id": sid, "family": "WF", "nt": nt, "nr": nr, "nv": 4, "na": NA, "len": length, "ttype": [0] * nt, "tnum": list(range(1, nt + 1)),
            "rtype": [0] * nr, "rnum": list(range(1, nr + 1)), "writer": writer or [0] * nr, "prog": prog, "init": init, "hist": hist,
            "note": "hand-designed bottom-up shape"}
def sess(*roots): return {"s": "session", "acts": [{"a": "req", "t": t} for t in roots]}
def bu(*changed): return {"s": "session", "acts": [{"a": "bu", "changed": list(changed)}]}
def setr(r, v): return {"s": "set", "r": r, "v": v}
probe = {"s": "probe", "rev": False}
out = []

# 1. a re-executed task newly requires an unscheduled task whose dependency two or three requires below is scheduled
for depth in (2, 3):
    for order in ("chain_first", "requirer_first"):
        nt = 2 + depth                       # X = 1, S = 2, ..., N = nt
        x = rows(rd(1), ret(), length=2)
        x[1][3] = rq(2)                      # r1 = 1 -> acc 3 -> require S
        prog = [x]
        for t in range(2, nt):
            prog.append(rows(rq(t + 1), ret(), length=2))
        prog.append(rows(rd(2), ret(), length=2))
        first = [2, 1] if order == "chain_first" else [1, 2]
        out.append(scn("bu-new-require-deep-%d-%s" % (depth, order), prog, 2, [0, 0],
                       [sess(*first), setr(1, 1), setr(2, 1), bu(1, 2), probe, setr(2, 2), bu(2), probe, setr(1, 0), bu(1), probe]))

# 2. the required task has two scheduled dependencies (first executed one must not end the loop)
x = rows(rd(1), ret(), length=2); x[1][3] = rq(2)
s = rows(rq(3), rq(4), length=2)
out.append(scn("bu-new-require-two-deps", [x, s, rows(rq(5), ret(), length=2), rows(rq(6), ret(), length=2), rows(rd(2), ret(), length=2), rows(rd(3), ret(), length=2)],
               3, [0, 0, 0], [sess(2, 1), setr(1, 1), setr(2, 1), setr(3, 1), bu(1, 2, 3), probe, setr(2, 3), setr(3, 2), bu(3, 2), probe]))

# 3. four tasks scheduled at once; the first popped task newly requires the lowest ranked one; a dependent pair in between
for first in ([2, 3, 1], [3, 2, 1], [1, 2, 3]):
    m = rows(rd(1), ret(), length=2); m[1][3] = rq(2)     # Main
    l = rows(rd(1), ret(), length=2)                      # Lib
    c = rows(rd(1), rq(4), length=2)                      # Compile -> Gen
    g = rows(rd(1), ret(), length=2)                      # Gen
    out.append(scn("bu-queue-order-%s" % "".join(map(str, first)), [m, l, c, g], 1, [0],
                   [sess(*first), setr(1, 1), bu(1), probe, setr(1, 0), bu(1), probe, setr(1, 1), bu(1), probe]))

# 4. diamond with the bottom affected; early cut-off when the bottom's output does not change (constant return)
for const in (False, True):
    a = rows(rq(2), rq(3), length=2)
    b = rows(rq(4), ret(), length=2)
    c = rows(rq(4), rd(2), length=2)
    d = rows(rd(1), ret(1 if const else 4), length=2)
    if const:
        d = [row(rd(1)), row(ret(1)), row(ret(1))]
    out.append(scn("bu-diamond-%s" % ("cutoff" if const else "propagate"), [a, b, c, d], 2, [0, 0],
                   [sess(1), setr(1, 1), bu(1), probe, setr(1, 2), setr(2, 1), bu(2, 1), probe, setr(1, 3), bu(1), sess(1)]))

# 5. independent tasks and a requirer that drops its require when re-executing
x = rows(rd(1), ret(), length=2); x[1][2] = rq(2)          # r1 = 0 -> acc 2 -> require 2; other values: no require
out.append(scn("bu-drop-require", [x, rows(rd(2), ret(), length=2), rows(rd(2), ret(), length=2)], 2, [0, 0],
               [sess(1, 3), setr(1, 1), setr(2, 1), bu(1, 2), probe, setr(2, 2), bu(2), probe, setr(1, 0), bu(1), probe, setr(2, 3), bu(2), probe]))

# 6. generated resource in the chain: writer below, reader above, both affected; reader requires the writer first
w = rows(rd(1), wr(2), length=2)
r = rows(rq(1), rd(2), length=2)
top = rows(rd(3), ret(), length=2); top[1][3] = rq(2)
out.append(scn("bu-generated-chain", [w, r, top], 3, [0, -1, 0], [sess(2, 3), setr(1, 1), setr(3, 1), bu(3, 1), probe, setr(1, 2), bu(1), probe],
               writer=[0, 1, 0]))

import os
with open(os.path.join(os.path.dirname(os.path.abspath(__file__)), "bu_shapes.jsonl"), "w") as f:
    for s_ in out:
        f.write(json.dumps(s_) + "\n")
print(len(out), "scenarios")
