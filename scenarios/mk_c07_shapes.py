#!/usr/bin/env python3
"""Writes scenarios/c07_cycle_shapes.jsonl: a cycle of length >= 3 that closes in a later session, right after the executing
task made a write whose hidden-dependency query walked the other tasks of the cycle (seeded change C07I: a cycle search that
starts with the nodes of the previous reachability query already marked visited).  Top-down and bottom-up variants.
Values: nv = na = 4; after `rd` of value v (acc 0) the accumulator is (v + 2) % 4."""
import json, os
NA = 4
def ret(f=4): return {"k": "ret", "x": 0, "c": "", "f": f}
def rd(r, c="eq"): return {"k": "rd", "x": r, "c": c, "f": 0}
def rq(t, c="eq"): return {"k": "rq", "x": t, "c": c, "f": 0}
def wr(r, f=4): return {"k": "wr", "x": r, "c": "eq", "f": f}
def row(op): return [dict(op) for _ in range(NA)]
def rows(*ops, length): return [row(o) for o in ops] + [row(ret()) for _ in range(length + 1 - len(ops))]
def sess(*roots): return {"s": "session", "acts": [{"a": "req", "t": t} for t in roots]}
def bu(*changed): return {"s": "session", "acts": [{"a": "bu", "changed": list(changed)}]}
def setr(r, v): return {"s": "set", "r": r, "v": v}
probe = {"s": "probe", "rev": False}
out = []
for depth in (3, 4, 5):                      # tasks 1 -> 2 -> ... -> depth; the last one closes the cycle by requiring task 1
    for mode in ("td", "bu"):
        for target in (1, 2):                # the required task: the top of the chain, or the one below it
            if target >= depth - 1: continue
            prog = [rows(rq(2), rd(2), length=3)]                        # top: requires the chain, then reads the generated resource
            for t in range(2, depth):
                prog.append(rows(rq(t + 1), ret(), length=3))
            last = rows(rd(1), wr(2), ret(), length=3)
            last[2][3] = rq(target)                                       # r1 = 1 -> acc 3 -> require an ancestor after the write
            prog.append(last)
            second = [setr(1, 1), sess(1)] if mode == "td" else [setr(1, 1), bu(1)]
            hist = [sess(1)] + second + [probe, setr(1, 2), sess(1), probe]
            out.append({"id": "c07-late-cycle-%d-%s-%d" % (depth, mode, target), "family": "INJ", "nt": depth, "nr": 2, "nv": 4, "na": NA, "len": 3,
                        "ttype": [0] * depth, "tnum": list(range(1, depth + 1)), "rtype": [0, 0], "rnum": [1, 2], "writer": [0, depth],
                        "prog": prog, "init": [0, -1], "hist": hist, "note": "cycle closing in a later session after a hidden-dependency query"})
with open(os.path.join(os.path.dirname(os.path.abspath(__file__)), "c07_cycle_shapes.jsonl"), "w") as f:
    for s in out: f.write(json.dumps(s) + "\n")
print(len(out), "scenarios")
